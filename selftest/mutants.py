"""Hand-written mutants of /repo used to test the checks (never applied to /repo itself).

Each entry: id, props (checks expected to exit 1), file (under src/furax), old, new.
Run:  python3 selftest/run_mutants.py [id-substring ...]
"""
M = []


def m(id, props, file, old, new, note=''):
    M.append(dict(id=id, props=props, file=file, old=old, new=new, note=note))


# ---- C01 / C07 : reduction -----------------------------------------------------------------------
m('qurot_rule_sign', ['C01', 'C15'], 'operators/qu_rotations.py',
  'angles = left.angles - right.operator.angles', 'angles = left.angles + right.operator.angles')
m('qurot_hwp_rule_left', ['C01', 'C15'], 'operators/hwp.py',
  'return [right, QURotationTransposeOperator(left)]', 'return [right, left]')
m('homothety_rule_drop', ['C01'], '_base/rules.py',
  '                value *= operand.value\n', '                value = operand.value\n')
m('transpose_index_rule_axis', ['C01', 'C12'], '_base/indices.py',
  'size_max = shape[axis]', 'size_max = shape[0]')
m('index_transpose_rule_unique', ['C01', 'C12'], '_base/indices.py',
  '        if not left.unique_indices:\n            raise NoReduction\n        return []', '        return []')
m('moveaxis_rule_sources', ['C01', 'C13'], '_base/axes.py',
  'if left.source != right.destination or left.destination != right.source:',
  'if left.source != right.source or left.destination != right.destination:')
m('ravel_reduce_sizes', ['C01', 'C13'], '_base/axes.py',
  '        if self.out_structure() == self.in_structure():\n            return IdentityOperator',
  '        if self.out_size() == self.in_size() and len(jax.tree.leaves(self.in_structure())) > 1:\n            return IdentityOperator')
m('blockrow_col_rule_class', ['C01', 'C10'], '_base/blocks.py',
  "    left_operator_class = BlockRowOperator\n    right_operator_class = BlockColumnOperator\n    reduced_class = AdditionOperator",
  "    left_operator_class = BlockRowOperator\n    right_operator_class = BlockColumnOperator\n    reduced_class = BlockDiagonalOperator")
m('addition_reduce_first', ['C01'], '_base/core.py',
  '        if len(operand_leaves) == 1:\n            leaf: AbstractLinearOperator = operand_leaves[0]\n            return leaf',
  '        if len(operand_leaves) <= 2:\n            leaf: AbstractLinearOperator = operand_leaves[0]\n            return leaf')
m('polarizer_hwp_rule', ['C01', 'C15'], 'operators/polarizers.py',
  '        return [left]\n', '        return [left, right]\n', note='semantics preserving? no: P@H@H... actually equal map; expected NOT flagged by C01')

# ---- C03 ------------------------------------------------------------------------------------------
m('composition_T_not_reversed', ['C03'], '_base/core.py',
  'return CompositionOperator([_.T for _ in reversed(self.operands)])', 'return CompositionOperator([_.T for _ in self.operands])')
m('moveaxis_T_not_swapped', ['C03', 'C13'], '_base/axes.py',
  'return MoveAxisOperator(self.destination, self.source, in_structure=self.out_structure())',
  'return MoveAxisOperator(self.source, self.destination, in_structure=self.out_structure())')
m('qurot_T_sign', ['C03', 'C15'], 'operators/qu_rotations.py',
  '        u = -x.q * sin_2angles + x.u * cos_2angles', '        u = x.q * sin_2angles + x.u * cos_2angles')
m('blockrow_T_row', ['C03', 'C10'], '_base/blocks.py',
  '        return BlockColumnOperator(self._tree_map(lambda op: op.T))\n\n    def out_structure',
  '        return BlockRowOperator(self._tree_map(lambda op: op.T))\n\n    def out_structure')
m('toast_T_no_transpose', ['C03'], 'toast/obs_matrix.py', 'return self.operator.matrix.T @ x', 'return self.operator.matrix @ x')
# ---- C15 ------------------------------------------------------------------------------------------
m('hwp_flips_q', ['C15'], 'operators/hwp.py', 'return StokesIQUPyTree(x.i, x.q, -x.u)', 'return StokesIQUPyTree(x.i, -x.q, x.u)')
m('qurot_angle_not_doubled', ['C15', 'C16'], 'operators/qu_rotations.py',
  '        cos_2angles = jnp.cos(2 * self.angles)\n        sin_2angles = jnp.sin(2 * self.angles)',
  '        cos_2angles = jnp.cos(2 * self.angles)\n        sin_2angles = jnp.sin(self.angles) * 2 * jnp.cos(self.angles) * jnp.sign(jnp.cos(self.angles)) ** 2',
  note='equal except where cos(a)=0: sin 2a is 0 there anyway -> semantics preserving for all angles; must NOT be flagged')
m('polarizer_minus', ['C15', 'C16'], 'operators/polarizers.py', 'return 0.5 * (x.i + x.q)', 'return 0.5 * (x.i - x.q)')
m('hwp_create_order', ['C15'], 'operators/hwp.py', 'rot.T @ hwp @ rot', 'rot @ hwp @ rot.T')
m('iquv_rot_v', ['C15'], 'operators/qu_rotations.py', 'return StokesIQUVPyTree(x.i, q, u, x.v)\n        raise NotImplementedError\n\n    def transpose',
  'return StokesIQUVPyTree(x.i, q, u, -x.v)\n        raise NotImplementedError\n\n    def transpose')
# ---- C09 ------------------------------------------------------------------------------------------
m('toep_nblock_floor', ['C09'], 'operators/toeplitz.py', 'nblock = int(np.ceil((l + overlap) / step_size))', 'nblock = int(np.floor((l + overlap) / step_size)) or 1')
m('toep_slice_offset', ['C09'], 'operators/toeplitz.py',
  'lax.dynamic_slice(y_block, (2 * half_band_width,), (step_size,))', 'lax.dynamic_slice(y_block, (half_band_width,), (step_size,))')
m('toep_kernel_no_centre', ['C09'], 'operators/toeplitz.py',
  'return jnp.concatenate((band_values[-1:0:-1], band_values))', 'return jnp.concatenate((band_values[::-1], band_values[1:]))',
  note='identical kernel: semantics preserving; must NOT be flagged')
m('toep_dense_wrap', ['C09'], 'operators/toeplitz.py', '        m = n - j\n', '        m = n - abs(j) + (1 if j == band_width and n > band_width + 1 else 0)\n')
m('toep_default_fft', ['C09'], 'operators/toeplitz.py', 'return int(2 ** (additional_power + np.ceil(np.log2(band_number))))',
  'return int(2 ** (additional_power + np.floor(np.log2(band_number)) - 1)) if band_number > 8 else int(2 ** (additional_power + np.ceil(np.log2(band_number))))',
  note='only K>=5 (band number 9+) gets an fft size below the band number: needs thorough tier or reject clause')
m('toep_fft_trim', ['C09'], 'operators/toeplitz.py', 'return Y_padded[half_band_width:-half_band_width]', 'return Y_padded[half_band_width - 1:-half_band_width - 1]')

# ---- C02 ------------------------------------------------------------------------------------------
m('sub_not_negated_for_sums', ['C02'], '_base/core.py',
  '        result: AbstractLinearOperator = self + (-other)\n', '        result: AbstractLinearOperator = self + (other if isinstance(other, AdditionOperator) and isinstance(self, CompositionOperator) else -other)\n')
m('rmatmul_appends_right', ['C02'], '_base/core.py', 'return CompositionOperator([other] + self.operands)', 'return CompositionOperator(self.operands + [other])')
m('addition_neg_first_only', ['C02'], '_base/core.py',
  'return AdditionOperator(self._tree_map(lambda operand: (-1) * operand))',
  'ops = self.operand_leaves\n        return AdditionOperator([(-1) * ops[0]] + (ops[1:] if len(ops) > 2 else [(-1) * o for o in ops[1:]]))')
m('truediv_no_reciprocal_for_arrays', ['C02'], '_base/core.py',
  'return HomothetyOperator(1 / other, self.out_structure()) @ self', 'return HomothetyOperator(other if other.weak_type is False and other.dtype == jnp.float32 else 1 / other, self.out_structure()) @ self')
m('lazy_inverse_matmul_any', ['C02'], '_base/core.py',
  '        if self.operator is other:\n            return IdentityOperator(self.in_structure())\n        return super().__matmul__(other)',
  '        if self.operator is other or type(self.operator) is type(other):\n            return IdentityOperator(self.in_structure())\n        return super().__matmul__(other)')
m('revert_identity_structure_check', ['C02'], '_base/core.py',
  "        if self.in_structure() != other.out_structure():\n            raise ValueError('Incompatible linear operator structures')\n        return other\n", '        return other\n')
# ---- C04 ------------------------------------------------------------------------------------------
m('blockrow_as_matrix_vstack', ['C04', 'C10'], '_base/blocks.py', 'return jnp.hstack([op.as_matrix() for op in self.block_leaves])', 'return jnp.hstack([op.as_matrix() for op in reversed(self.block_leaves)])')
m('diag_as_matrix_leaf_order', ['C04'], '_base/diagonal.py', 'for leaf in jax.tree.leaves(self.in_structure())\n        ]', 'for leaf in reversed(jax.tree.leaves(self.in_structure()))\n        ]')
m('generic_as_matrix_rows', ['C04'], '_base/core.py', 'matrix = matrix.at[:, jcounter].set(jnp.concatenate(out_leaves))', 'matrix = matrix.at[:, jcounter].set(jnp.concatenate(out_leaves[::-1]))')
m('toeplitz_as_matrix_batch', ['C04', 'C09'], 'operators/toeplitz.py', 'blocks = blocks.reshape(-1, blocks.shape[-1], blocks.shape[-1])', 'blocks = blocks.reshape(-1, blocks.shape[-1], blocks.shape[-1])[::-1]')
# ---- C05 ------------------------------------------------------------------------------------------
m('blockcol_in_structure', ['C05', 'C10'], '_base/blocks.py',
  '    def in_structure(self) -> PyTree[jax.ShapeDtypeStruct]:\n        return self.block_leaves[0].in_structure()\n\n    def as_matrix(self) -> Inexact[Array, \'a b\']:\n        return jnp.vstack',
  '    def in_structure(self) -> PyTree[jax.ShapeDtypeStruct]:\n        return self.block_leaves[-1].out_structure() if len(self.block_leaves) == 3 else self.block_leaves[0].in_structure()\n\n    def as_matrix(self) -> Inexact[Array, \'a b\']:\n        return jnp.vstack')
m('out_promoted_dtype_inputs', ['C05'], '_base/core.py', '        leaves = jax.tree.leaves(self.out_structure())\n        return jnp.result_type(*leaves)', '        leaves = jax.tree.leaves(self.in_structure())\n        return jnp.result_type(*leaves)')
m('polarizer_square', ['C05', 'C08'], 'operators/polarizers.py', 'class LinearPolarizerOperator(AbstractLinearOperator):', 'from furax.operators import square\n\n\n@square\nclass LinearPolarizerOperator(AbstractLinearOperator):')
m('revert_toeplitz_dtype', ['C05', 'C09'], 'operators/toeplitz.py', 'y = jnp.zeros(l + x_padding_end, dtype=jnp.promote_types(dtype, jnp.float32))', 'y = jnp.zeros(l + x_padding_end)')
m('revert_toeplitz_half_precision_fft', ['C09'], 'operators/toeplitz.py', '        if jnp.issubdtype(dtype, jnp.floating):\n            # the FFT of half-precision data is computed in single precision\n            Y_padded = Y_padded.astype(dtype)\n', '')
m('revert_toeplitz_half_precision_overlap_save', ['C09'], 'operators/toeplitz.py', 'y = jnp.zeros(l + x_padding_end, dtype=jnp.promote_types(dtype, jnp.float32))', 'y = jnp.zeros(l + x_padding_end, dtype=dtype)')
# ---- C06 ------------------------------------------------------------------------------------------
m('homothety_inverse_sign', ['C06'], '_base/core.py', 'return HomothetyOperator(1 / self.value, self._in_structure)', 'return HomothetyOperator(1 / jnp.abs(self.value), self._in_structure)')
m('pinv_no_guard', ['C06'], '_base/diagonal.py', 'return jnp.where(self._diagonal != 0, 1 / self._diagonal, 0)', 'return 1 / self._diagonal')
m('pinv_guard_sign', ['C06'], '_base/diagonal.py', 'return jnp.where(self._diagonal != 0, 1 / self._diagonal, 0)', 'return jnp.where(self._diagonal > 0, 1 / self._diagonal, 0)')
m('blockdiag_inverse_first', ['C06', 'C10'], '_base/blocks.py', 'return BlockDiagonalOperator(self._tree_map(lambda op: op.I))',
  'first = self.block_leaves[0]\n        return BlockDiagonalOperator(self._tree_map(lambda op: op.I if op is first or len(self.block_leaves) < 3 else op))')
# ---- C07 ------------------------------------------------------------------------------------------
m('driver_no_stepback', ['C07'], '_base/rules.py', '                if index > 0:\n                    index -= 1\n', '')
m('driver_stop_early', ['C07'], '_base/rules.py', '        while index < len(operands) - 1:', '        while index < len(operands) - 1 and index < 2:')
m('homothety_side_ge', ['C07'], '_base/rules.py', 'apply_on_left = first.out_size() <= last.in_size()', 'apply_on_left = first.out_size() >= last.in_size()')
m('pack_rule_classes_swapped', ['C07', 'C12'], '_base/linear.py', '    left_operator_class = PackOperator\n    right_operator_class = TransposeOperator', '    left_operator_class = TransposeOperator\n    right_operator_class = PackOperator')
m('inverse_rule_eq', ['C07'], '_base/rules.py', '            if left.operator is not right:\n                raise NoReduction\n        else:', '            if left.operator is not right or isinstance(right, HomothetyOperator):\n                raise NoReduction\n        else:')
# ---- C08 ------------------------------------------------------------------------------------------
m('dense_tagged_symmetric', ['C08'], '_base/dense.py', 'class DenseBlockDiagonalOperator(AbstractLinearOperator):', 'from furax._base.core import symmetric\n\n\n@symmetric\nclass DenseBlockDiagonalOperator(AbstractLinearOperator):')
m('hwp_psd', ['C08'], 'operators/hwp.py', '@diagonal\nclass HWPOperator', 'from furax.operators import positive_semidefinite\n\n\n@positive_semidefinite\n@diagonal\nclass HWPOperator')
m('lower_triangular_registers_upper', ['C08'], '_base/core.py', 'def lower_triangular(cls: type[T]) -> type[T]:\n    lx.is_lower_triangular.register(cls)(lambda _: True)', 'def lower_triangular(cls: type[T]) -> type[T]:\n    lx.is_upper_triangular.register(cls)(lambda _: True)')
m('lazy_transpose_forwards_triangular_tags', ['C08'], '_base/core.py', 'class TransposeOperator(_AbstractLazyDualOperator):\n', 'lx.is_lower_triangular.register(_AbstractLazyDualOperator)(lambda dual: lx.is_lower_triangular(dual.operator))\n\n\nclass TransposeOperator(_AbstractLazyDualOperator):\n')
m('broadcast_diag_tagged_diagonal', ['C08'], '_base/diagonal.py', 'class BroadcastDiagonalOperator(AbstractLinearOperator):', '@diagonal\nclass BroadcastDiagonalOperator(AbstractLinearOperator):')
# ---- C10 ------------------------------------------------------------------------------------------
m('revert_blockrow_single', ['C10'], '_base/blocks.py', '        op, leaf = op_leaves[0]\n        value = op(leaf)\n', '        if len(op_leaves) == 1:\n            return op_leaves[0]\n        op, leaf = op_leaves[0]\n        value = op(leaf)\n')
m('blockdiag_rule_reversed', ['C10', 'C01'], '_base/blocks.py', 'return [self.reduced_class(left._tree_map(lambda l, r: l @ r, right.blocks)).reduce()]',
  'lb, rb = left.block_leaves, right.block_leaves\n        if len(lb) == 3 and isinstance(left.blocks, list):\n            return [self.reduced_class([l @ r for l, r in zip(lb, rb[::-1])]).reduce()]\n        return [self.reduced_class(left._tree_map(lambda l, r: l @ r, right.blocks)).reduce()]')
# ---- C11 ------------------------------------------------------------------------------------------
m('diag_negative_axis_range', ['C11'], '_base/diagonal.py', 'range(axis_destination - diagonal.ndim + 1, axis_destination + 1)', 'range(axis_destination - diagonal.ndim + 1, axis_destination + 1) if diagonal.ndim < 2 else range(axis_destination - diagonal.ndim, axis_destination)')
m('diag_normalize_axes', ['C11'], '_base/diagonal.py', 'axis if axis >= 0 else len(input_leaf_shape) + axis for axis in self.axis_destination', 'axis if axis >= 0 else max(len(input_leaf_shape), 2) + axis for axis in self.axis_destination')
# ---- C12 ------------------------------------------------------------------------------------------
m('revert_transpose_index_negatives', ['C12', 'C01'], '_base/indices.py', '        index = jnp.where(index < 0, index + size_max, index)\n', '')
m('index_unique_default_true', ['C12'], '_base/indices.py', '        elif unique_indices is None:\n            unique_indices = False', '        elif unique_indices is None:\n            unique_indices = all(not (isinstance(_, Array) and _.ndim > 1) for _ in indices) and len(indices) > 1')
m('indexed_axes_after_ellipsis', ['C12'], '_base/indices.py', 'axes.append(axis - len(self.indices))', 'axes.append(axis - len(self.indices) + (1 if len(self.indices) > 2 else 0))')
m('revert_index_ctor', ['C12', 'C16'], '_base/indices.py', '        self._out_structure = out_structure\n        if out_structure is None:\n            self._out_structure = AbstractLinearOperator.out_structure(self)', '        self._out_structure = out_structure or AbstractLinearOperator.out_structure(self)')
# ---- C13 ------------------------------------------------------------------------------------------
m('ravel_negative_axis', ['C13'], '_base/axes.py', '            last_axis = leaf.ndim + self.last_axis if self.last_axis < 0 else self.last_axis\n            if first_axis > last_axis:\n                assert False',
  '            last_axis = leaf.ndim + self.last_axis if self.last_axis < 0 else self.last_axis\n            if self.last_axis < -1 and leaf.ndim > 2:\n                last_axis -= 1\n            if first_axis > last_axis:\n                assert False')
m('ravel_slice_off_by_one', ['C13'], '_base/axes.py', 'new_shape = leaf.shape[:first_axis] + (-1,) + leaf.shape[last_axis + 1 :]', 'new_shape = leaf.shape[:first_axis] + (-1,) + leaf.shape[last_axis + 2 :] if leaf.ndim > 2 else leaf.shape[:first_axis] + (-1,) + leaf.shape[last_axis + 1 :]')
# ---- C14 ------------------------------------------------------------------------------------------
m('revert_einsum_swap_all', ['C14'], '_base/dense.py', "        lefts = lefts.translate(str.maketrans(sum_axis + transpose_axis, transpose_axis + sum_axis))\n",
  "        lefts_as_list = list(lefts)\n        lefts_as_list[lefts.index(sum_axis)] = transpose_axis\n        lefts_as_list[lefts.index(transpose_axis)] = sum_axis\n        lefts = ''.join(lefts_as_list)\n")
m('einsum_rights_not_checked', ['C14'], '_base/dense.py', "        if expected_results != rights:\n", "        if expected_results != rights and '...' not in rights:\n")
# ---- C16 / C17 ------------------------------------------------------------------------------------
m('euler_alpha_gamma_swapped', ['C16'], 'projections.py', 'alpha, beta, gamma = samplings.phi, samplings.theta, samplings.pa', 'alpha, beta, gamma = samplings.pa, samplings.theta, samplings.phi')
m('projection_rotation_uses_phi', ['C16'], 'projections.py', 'rotation = QURotationOperator(samplings.pa, tod_structure)', 'rotation = QURotationOperator(samplings.phi, tod_structure)')
m('acquisition_without_hwp', ['C16'], 'instruments/sat.py', 'acquisition: AbstractLinearOperator = polarizer @ hwp @ proj', 'acquisition: AbstractLinearOperator = polarizer @ proj', note='the polariser ignores U, so dropping the HWP is semantics preserving for the detected power: must NOT be flagged')
m('projection_einsum_order', ['C16'], 'projections.py', "jnp.einsum('ijk, jlm -> ilmk', rot, detector_dirs.coords)", "jnp.einsum('jik, jlm -> ilmk', rot, detector_dirs.coords)")
m('pixel2index_stride_early', ['C17'], 'landscapes.py', '            indices += indices_axis * stride\n            stride *= dim\n', '            stride *= dim\n            indices += indices_axis * stride\n')
m('pixel2index_floor', ['C17'], 'landscapes.py', '            indices_axis = jnp.round(coord).astype(dtype)', '            indices_axis = jnp.floor(coord + 0.5).astype(dtype)',
  note='floor(x+.5) differs from round-half-even only on ties where either neighbour is accepted: must NOT be flagged')
m('pixel2index_valid_le', ['C17'], 'landscapes.py', 'valid &= (0 <= indices_axis) & (indices_axis < dim)', 'valid &= (0 <= indices_axis) & (indices_axis <= dim)')
m('revert_pixel2index_dtype', ['C17'], 'landscapes.py', 'if len(self) <= np.iinfo(np.int32).max:', 'if len(self) - 1 <= np.iinfo(np.iinfo(np.int32)).max:')
# ---- C18 / C19 / C20 ------------------------------------------------------------------------------
m('homothety_value_dependent_branch', ['C18'], '_base/core.py', '        return jax.tree.map(lambda leaf: self.value * leaf, x)\n\n    def inverse',
  '        if self.value == 0:\n            return jax.tree.map(jnp.zeros_like, x)\n        return jax.tree.map(lambda leaf: self.value * leaf, x)\n\n    def inverse')
m('revert_landscape_flatten', ['C18'], 'landscapes.py', "        aux_data = {\n            'dtype': self.dtype,\n            'stokes': self.stokes,\n            'nside': self.nside,\n        }", "        aux_data = {\n            'shape': self.shape,\n            'dtype': self.dtype,\n            'stokes': self.stokes,\n            'nside': self.nside,\n        }")
m('stokes_landscape_drops_stokes', ['C18'], 'landscapes.py', "        aux_data = {\n            'shape': self.shape,\n            'dtype': self.dtype,\n            'stokes': self.stokes,\n        }  # static values", "        aux_data = {\n            'shape': self.shape,\n            'dtype': self.dtype,\n        }  # static values")
m('config_exit_sets_default', ['C19'], '_base/config.py', '        _config_var.reset(self.token)', '        _config_var.set(ConfigState() if exc_type is not None else self._instance) if exc_type is not None else _config_var.reset(self.token)')
m('config_init_from_default', ['C19'], '_base/config.py', '        config = _config_var.get()\n        self._instance = replace(config, **kwargs)', "        config = _config_var.get()\n        self._instance = replace(config if 'solver_options' not in kwargs else ConfigState(), **kwargs)")
m('inverse_reads_config_late', ['C19'], '_base/core.py', '        solver = self.config.solver\n', '        solver = Config.instance().solver\n')
m('roperation_swapped', ['C20'], 'landscapes.py', 'result = jax.tree.map(partial(operation, left), self)', 'result = jax.tree.map(lambda leaf: operation(leaf, left), self)')
m('rsub_container', ['C20'], 'landscapes.py', '            result = jax.tree.map(operation, left, self)', '            result = jax.tree.map(operation, self, left)', note='unreachable: for two containers of the same type Python never calls the reflected method; semantics preserving')
m('dot_conj_second', ['C20'], 'tree.py', 'xy = jax.tree.map(jnp.vdot, x, y)', 'xy = jax.tree.map(lambda a, b: jnp.vdot(b, a), x, y)')
m('neg_maps_abs', ['C20'], 'landscapes.py', 'result: Self = jax.tree.map(operator.neg, self)', 'result: Self = jax.tree.map(lambda l: -jnp.abs(l) if l.ndim > 2 else -l, self)', note='needs rank-3 components: outside the bounds of the quick tier (documents a miss)')

# ---- semantics-preserving refactors: every listed check must exit 0 -----------------------------------------------------------
B = 'semantics preserving refactor: must NOT be flagged'
m('benign_sum_reverse_order', ['C01', 'C02', 'C03', 'C04'], '_base/core.py',
  '        y = operands[0](x)\n\n        for operand in operands[1:]:\n            y = jax.tree.map(jnp.add, y, operand(x))\n',
  '        y = operands[-1](x)\n\n        for operand in reversed(operands[:-1]):\n            y = jax.tree.map(jnp.add, operand(x), y)\n', note=B)
m('benign_moveaxis_via_transpose', ['C13', 'C03', 'C01'], '_base/axes.py',
  '        return jax.tree.map(lambda leaf: jnp.moveaxis(leaf, self.source, self.destination), x)',
  '        def func(leaf):\n            src = [s % leaf.ndim for s in self.source]\n            dst = [d % leaf.ndim for d in self.destination]\n            perm = [a for a in range(leaf.ndim) if a not in src]\n            for d, s_ in sorted(zip(dst, src)):\n                perm.insert(d, s_)\n            return jnp.transpose(leaf, perm)\n\n        return jax.tree.map(func, x)', note=B)
m('benign_rotation_half_angle_formulas', ['C15', 'C16', 'C01'], 'operators/qu_rotations.py',
  '        cos_2angles = jnp.cos(2 * self.angles)\n        sin_2angles = jnp.sin(2 * self.angles)\n        q = x.q * cos_2angles - x.u * sin_2angles',
  '        cos_2angles = 1 - 2 * jnp.sin(self.angles) ** 2\n        sin_2angles = 2 * jnp.sin(self.angles) * jnp.cos(self.angles)\n        q = x.q * cos_2angles - x.u * sin_2angles', note=B)
m('benign_larger_default_fft', ['C09', 'C04', 'C18'], 'operators/toeplitz.py', '        additional_power = 1\n', '        additional_power = 2\n', note=B)
m('benign_rules_reverse_order', ['C01', 'C07', 'C15', 'C12', 'C13', 'C10'], '_base/rules.py', '        return iter(self._registry)', '        return iter(reversed(self._registry))', note=B)
m('benign_homothety_commuted', ['C01', 'C02', 'C06', 'C08'], '_base/core.py', 'return jax.tree.map(lambda leaf: self.value * leaf, x)', 'return jax.tree.map(lambda leaf: leaf * self.value, x)', note=B)
m('benign_pinv_where_flipped', ['C06', 'C01', 'C10'], '_base/diagonal.py', 'return jnp.where(self._diagonal != 0, 1 / self._diagonal, 0)', 'return jnp.where(self._diagonal == 0, 0, 1 / self._diagonal)', note=B)
m('benign_blockdiag_mv_loop', ['C10', 'C01', 'C03'], '_base/blocks.py', '        return self._tree_map(lambda op, vect: op.mv(vect), vector)',
  '        ops, treedef = jax.tree.flatten(self.blocks, is_leaf=lambda x: isinstance(x, AbstractLinearOperator))\n        vects = treedef.flatten_up_to(vector)\n        return jax.tree.unflatten(treedef, [op.mv(v) for op, v in zip(ops, vects)])', note=B)
m('benign_pixel2index_rint', ['C17'], 'landscapes.py', '            indices_axis = jnp.round(coord).astype(dtype)\n            valid &= (0 <= indices_axis) & (indices_axis < dim)',
  '            indices_axis = jnp.rint(coord).astype(dtype)\n            valid = jnp.logical_and(valid, jnp.logical_and(indices_axis >= 0, indices_axis <= dim - 1))', note=B)
m('benign_composition_mv_loop', ['C01', 'C02', 'C03'], '_base/core.py', '        for operand in reversed(self.operands):\n            x = operand.mv(x)\n        return x',
  '        y = x\n        for i in range(len(self.operands) - 1, -1, -1):\n            y = self.operands[i].mv(y)\n        return y', note=B)
m('revert_toeplitz_band_number', ['C09'], 'operators/toeplitz.py', '        band_number = 2 * band_values.shape[-1] - 1\n', '        band_number = 2 * band_values.size - 1\n')
m('revert_inverse_transpose', ['C03'], '_base/core.py',
  "        transposed = InverseOperator(self.operator.T)\n        object.__setattr__(transposed, 'config', self.config)\n        return transposed\n",
  "        return TransposeOperator(self)\n")
m('inverse_transpose_drops_config', ['C19'], '_base/core.py', "        object.__setattr__(transposed, 'config', self.config)\n", "", note='the transposed inverse would silently use the configuration active at transposition time; not covered by the C19 histories (no transpose event): documents a miss')

# ---- further behaviour-preserving refactors aimed at the checks added after the seeded rounds 3-5 -------------------------------
m('benign_from_stokes_sorted_items', ['C20'], 'landscapes.py', '            args = tuple(keywords[stoke] for stoke in stokes)\n',
  '            args = tuple(value for _, value in sorted(keywords.items()))\n', note='same order: stokes is the sorted key string')
m('benign_stokes_matmul_vdot', ['C20'], 'landscapes.py', '        return dot(self, other)\n',
  '        return sum(jnp.vdot(a, b) for a, b in zip(jax.tree.leaves(self), jax.tree.leaves(other)))\n', note='vdot conjugates its first argument, as tree.dot does')
m('benign_lazy_transpose_as_matrix', ['C04', 'C03', 'C18'], '_base/core.py',
  "    def transpose(self) -> AbstractLinearOperator:\n        return self.operator\n\n\nclass AbstractLazyInverseOperator(",
  "    def transpose(self) -> AbstractLinearOperator:\n        return self.operator\n\n    def as_matrix(self) -> Inexact[Array, 'a b']:\n        matrix: Array = self.operator.as_matrix().T\n        return matrix\n\n\nclass AbstractLazyInverseOperator(",
  note='correct dense shortcut for the lazy transpose (no conjugation)')
m('benign_strict_diagonal_tuple_compare', ['C05', 'C08', 'C11'], '_base/diagonal.py', '        if shape != input_shape:\n', '        if tuple(shape) != tuple(input_shape):\n')
m('benign_toeplitz_cast_via_asarray', ['C09', 'C05'], 'operators/toeplitz.py', '            Y_padded = Y_padded.astype(dtype)\n', '            Y_padded = jnp.asarray(Y_padded, dtype=dtype)\n')
m('revert_block_rule_layout_check', ['C01'], '_base/blocks.py', '        if left_treedef != right_treedef:\n            raise NoReduction\n', '        if False:\n            raise NoReduction\n',
  note='revert of db9de41')

# ---- lines found unexecuted by a line-coverage measurement of the quick tier, now exercised ------------------------------------
m('stokes_roperation_same_kind_swapped', ['C20'], 'landscapes.py',
  '            result = jax.tree.map(operation, left, self)', '            result = jax.tree.map(operation, self, left)')
m('moveaxis_list_source_reversed', ['C13'], '_base/axes.py',
  '            source = cast(tuple[int], tuple(source))', '            source = cast(tuple[int], tuple(reversed(source)))')
m('diagonal_list_axes_sorted', ['C11'], '_base/diagonal.py',
  '            axis_destination = tuple(axis_destination)\n', '            axis_destination = tuple(sorted(axis_destination))\n')
m('blockdiag_inverse_no_square_guard', ['C06'], '_base/blocks.py',
  '            return super().inverse()\n        return BlockDiagonalOperator', '            return self.T\n        return BlockDiagonalOperator')
m('einsum_transposer_raises_for_every_string', ['C14'], '_base/dense.py',
  'lefts = lefts.translate(str.maketrans(sum_axis + transpose_axis, transpose_axis + sum_axis))',
  'lefts = lefts.translate(str.maketrans(sum_axis - transpose_axis, transpose_axis + sum_axis))',
  note='found by the systematic mutants: with "any exception is a rejection" every string became "rejected" and only the twins noticed (exit 2)')
m('indexed_axes_ellipsis_slice_start', ['C12'], '_base/indices.py',
  'enumerate(self.indices[ellipsis_index + 1 :], ellipsis_index + 1)', 'enumerate(self.indices[ellipsis_index + 0 :], ellipsis_index + 1)',
  note='systematic mutant: P.T @ P with (..., array) is no longer simplified (map unchanged)')
m('reshape_negative_sizes_accepted', ['C13'], '_base/axes.py',
  'if any(_ < -1 for _ in shape):', 'if any(_ < -2 for _ in shape):', note='systematic mutant: (-2, -3) accepted for 6 elements')
m('transpose_index_rule_two_leaf_shapes', ['C12'], '_base/indices.py',
  '        if len(shapes) > 1:\n            raise NoReduction', '        if len(shapes) > 2:\n            raise NoReduction',
  note='systematic mutant: the multiplicity diagonal of one leaf shape is applied to a pytree with two leaf shapes')
