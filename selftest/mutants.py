"""Hand-written mutants of /repo used to test the checks (never applied to /repo itself).

Each entry: id, props (checks expected to exit 1), file (under src/furax), old, new.
Run:  python3 selftest/run_mutants.py [id-substring ...]
"""
M = []


def m(id, props, file, old, new, note=''):
    M.append(dict(id=id, props=props, file=file, old=old, new=new, note=note))


# ---- C01 / C07 : reduction -----------------------------------------------------------------------
m('qurot_rule_sign', ['C01', 'C15'], 'operators/qu_rotations.py',
  'angles = left.angles - right.operator.angles', 'angles = left.angles + right.operator.angles')
m('qurot_hwp_rule_left', ['C01', 'C15'], 'operators/hwp.py',
  'return [right, QURotationTransposeOperator(left)]', 'return [right, left]')
m('homothety_rule_drop', ['C01'], '_base/rules.py',
  '                value *= operand.value\n', '                value = operand.value\n')
m('transpose_index_rule_axis', ['C01', 'C12'], '_base/indices.py',
  'size_max = shape[axis]', 'size_max = shape[0]')
m('index_transpose_rule_unique', ['C01', 'C12'], '_base/indices.py',
  '        if not left.unique_indices:\n            raise NoReduction\n        return []', '        return []')
m('moveaxis_rule_sources', ['C01', 'C13'], '_base/axes.py',
  'if left.source != right.destination or left.destination != right.source:',
  'if left.source != right.source or left.destination != right.destination:')
m('ravel_reduce_sizes', ['C01', 'C13'], '_base/axes.py',
  '        if self.out_structure() == self.in_structure():\n            return IdentityOperator',
  '        if self.out_size() == self.in_size() and len(jax.tree.leaves(self.in_structure())) > 1:\n            return IdentityOperator')
m('blockrow_col_rule_class', ['C01', 'C10'], '_base/blocks.py',
  "    left_operator_class = BlockRowOperator\n    right_operator_class = BlockColumnOperator\n    reduced_class = AdditionOperator",
  "    left_operator_class = BlockRowOperator\n    right_operator_class = BlockColumnOperator\n    reduced_class = BlockDiagonalOperator")
m('addition_reduce_first', ['C01'], '_base/core.py',
  '        if len(operand_leaves) == 1:\n            leaf: AbstractLinearOperator = operand_leaves[0]\n            return leaf',
  '        if len(operand_leaves) <= 2:\n            leaf: AbstractLinearOperator = operand_leaves[0]\n            return leaf')
m('polarizer_hwp_rule', ['C01', 'C15'], 'operators/polarizers.py',
  '        return [left]\n', '        return [left, right]\n', note='semantics preserving? no: P@H@H... actually equal map; expected NOT flagged by C01')

# ---- C03 ------------------------------------------------------------------------------------------
m('composition_T_not_reversed', ['C03'], '_base/core.py',
  'return CompositionOperator([_.T for _ in reversed(self.operands)])', 'return CompositionOperator([_.T for _ in self.operands])')
m('moveaxis_T_not_swapped', ['C03', 'C13'], '_base/axes.py',
  'return MoveAxisOperator(self.destination, self.source, in_structure=self.out_structure())',
  'return MoveAxisOperator(self.source, self.destination, in_structure=self.out_structure())')
m('qurot_T_sign', ['C03', 'C15'], 'operators/qu_rotations.py',
  '        u = -x.q * sin_2angles + x.u * cos_2angles', '        u = x.q * sin_2angles + x.u * cos_2angles')
m('blockrow_T_row', ['C03', 'C10'], '_base/blocks.py',
  '        return BlockColumnOperator(self._tree_map(lambda op: op.T))\n\n    def out_structure',
  '        return BlockRowOperator(self._tree_map(lambda op: op.T))\n\n    def out_structure')
m('toast_T_no_transpose', ['C03'], 'toast/obs_matrix.py', 'return self.operator.matrix.T @ x', 'return self.operator.matrix @ x')
m('dense_T_swap_first_only', ['C03', 'C14'], '_base/dense.py',
  "        lefts_as_list[transpose_axis_number] = sum_axis\n", "        pass\n")
# ---- C15 ------------------------------------------------------------------------------------------
m('hwp_flips_q', ['C15'], 'operators/hwp.py', 'return StokesIQUPyTree(x.i, x.q, -x.u)', 'return StokesIQUPyTree(x.i, -x.q, x.u)')
m('qurot_angle_not_doubled', ['C15', 'C16'], 'operators/qu_rotations.py',
  '        cos_2angles = jnp.cos(2 * self.angles)\n        sin_2angles = jnp.sin(2 * self.angles)',
  '        cos_2angles = jnp.cos(2 * self.angles)\n        sin_2angles = jnp.sin(self.angles) * 2 * jnp.cos(self.angles) * jnp.sign(jnp.cos(self.angles)) ** 2',
  note='equal except where cos(a)=0: sin 2a is 0 there anyway -> semantics preserving for all angles; must NOT be flagged')
m('polarizer_minus', ['C15', 'C16'], 'operators/polarizers.py', 'return 0.5 * (x.i + x.q)', 'return 0.5 * (x.i - x.q)')
m('hwp_create_order', ['C15'], 'operators/hwp.py', 'rot.T @ hwp @ rot', 'rot @ hwp @ rot.T')
m('iquv_rot_v', ['C15'], 'operators/qu_rotations.py', 'return StokesIQUVPyTree(x.i, q, u, x.v)\n        raise NotImplementedError\n\n    def transpose',
  'return StokesIQUVPyTree(x.i, q, u, -x.v)\n        raise NotImplementedError\n\n    def transpose')
# ---- C09 ------------------------------------------------------------------------------------------
m('toep_nblock_floor', ['C09'], 'operators/toeplitz.py', 'nblock = int(np.ceil((l + overlap) / step_size))', 'nblock = int(np.floor((l + overlap) / step_size)) or 1')
m('toep_slice_offset', ['C09'], 'operators/toeplitz.py',
  'lax.dynamic_slice(y_block, (2 * half_band_width,), (step_size,))', 'lax.dynamic_slice(y_block, (half_band_width,), (step_size,))')
m('toep_kernel_no_centre', ['C09'], 'operators/toeplitz.py',
  'return jnp.concatenate((band_values[-1:0:-1], band_values))', 'return jnp.concatenate((band_values[::-1], band_values[1:]))',
  note='identical kernel: semantics preserving; must NOT be flagged')
m('toep_dense_wrap', ['C09'], 'operators/toeplitz.py', '        m = n - j\n', '        m = n - abs(j) + (1 if j == band_width and n > band_width + 1 else 0)\n')
m('toep_default_fft', ['C09'], 'operators/toeplitz.py', 'return int(2 ** (additional_power + np.ceil(np.log2(band_number))))',
  'return int(2 ** (additional_power + np.floor(np.log2(band_number)) - 1)) if band_number > 8 else int(2 ** (additional_power + np.ceil(np.log2(band_number))))',
  note='only K>=5 (band number 9+) gets an fft size below the band number: needs thorough tier or reject clause')
m('toep_fft_trim', ['C09'], 'operators/toeplitz.py', 'return Y_padded[half_band_width:-half_band_width]', 'return Y_padded[half_band_width - 1:-half_band_width - 1]')
