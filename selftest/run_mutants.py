#!/usr/bin/env python3
"""Applies each mutant to a scratch copy of /repo/src (outside /repo and /verif), runs the quick
checks of the properties it should break with FURAX_SRC pointing at the copy, removes the copy."""
import os
import shutil
import subprocess
import sys
import tempfile
import time

HERE = os.path.dirname(os.path.abspath(__file__))
VERIF = os.path.dirname(HERE)
sys.path.insert(0, HERE)
from mutants import M  # noqa: E402

sel = sys.argv[1:]
only_props = [a for a in sel if a.startswith('C') and a[1:].isdigit()]
ids = [a for a in sel if a not in only_props]
rows = []
for mu in M:
    if ids and not any(s in mu['id'] for s in ids):
        continue
    d = tempfile.mkdtemp(prefix='fxmut_')
    try:
        shutil.copytree('/repo/src', os.path.join(d, 'src'))
        path = os.path.join(d, 'src', 'furax', mu['file'])
        s = open(path).read()
        if mu['old'] not in s:
            rows.append((mu['id'], '-', 'PATTERN NOT FOUND'))
            continue
        open(path, 'w').write(s.replace(mu['old'], mu['new'], 1))
        for prop in mu['props']:
            if only_props and prop not in only_props:
                continue
            if not os.path.exists(os.path.join(VERIF, 'fxv', 'checks', prop.lower() + '.py')):
                continue
            t = time.time()
            env = dict(os.environ, FURAX_SRC=os.path.join(d, 'src'), VERIF_EVIDENCE_DIR=os.path.join(VERIF, '.work', 'evidence_selftest'))
            p = subprocess.run([os.path.join(VERIF, 'check'), prop, '--tier', 'quick'], capture_output=True, text=True, env=env)
            tail = [l for l in p.stdout.splitlines() if l.startswith(('VIOLATION', 'HARNESS', '#'))][:2]
            rows.append((mu['id'], prop, f'exit={p.returncode} {time.time() - t:.0f}s ' + ' | '.join(x[:160] for x in tail)))
            print(rows[-1], flush=True)
    finally:
        shutil.rmtree(d, ignore_errors=True)
print('\n== summary ==')
for r in rows:
    print(*r)
