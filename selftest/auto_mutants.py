#!/usr/bin/env python3
"""Systematic first-order mutants of /repo/src/furax (generated from the AST, never applied to /repo itself).

usage: auto_mutants.py list                      -> number of candidate mutants per file
       auto_mutants.py run <n> <seed> [file...]  -> samples n mutants (stratified by file), applies each to a scratch copy under
                                                    /tmp, runs the quick checks mapped to the file until one exits 1, prints one
                                                    line per mutant: CAUGHT <check> / SURVIVED / BROKEN (exit 2 everywhere)
Mutation operators: comparison operator, arithmetic operator, and/or, small integer constant +-1, dropped unary minus,
negated `if` condition.  Positions inside annotations, decorators, docstrings, raise/assert statements are skipped.
"""
import ast
import os
import random
import shutil
import subprocess
import sys
import tempfile
import time

VERIF = os.path.dirname(os.path.dirname(os.path.abspath(__file__)))
SRC = '/repo/src/furax'
CHECKS = {
    '_base/core.py': ['C02', 'C03', 'C04', 'C05', 'C06', 'C08', 'C01'],
    '_base/rules.py': ['C01', 'C07'],
    '_base/blocks.py': ['C10', 'C03', 'C01', 'C07'],
    '_base/diagonal.py': ['C11', 'C04', 'C06', 'C01'],
    '_base/indices.py': ['C12', 'C01', 'C07'],
    '_base/linear.py': ['C12'],
    '_base/axes.py': ['C13', 'C01', 'C07'],
    '_base/dense.py': ['C14', 'C03', 'C04'],
    '_base/config.py': ['C19'],
    'operators/toeplitz.py': ['C09'],
    'operators/qu_rotations.py': ['C15', 'C01', 'C07'],
    'operators/hwp.py': ['C15', 'C01', 'C07'],
    'operators/polarizers.py': ['C15', 'C01', 'C07'],
    'landscapes.py': ['C20', 'C17', 'C18'],
    'projections.py': ['C16'],
    'instruments/sat.py': ['C16'],
    'detectors.py': ['C16'],
    'tree.py': ['C20'],
    'toast/obs_matrix.py': ['C03', 'C04'],
}
# code that the library itself never reaches (see DESIGN 12.4): function names skipped
DEAD = {'_apply_overlap_add', '_overlap_add_jax', 'create_detector_array', 'create_detector_directions', 'create_random_sampling',
        'lower_triangular', 'upper_triangular', 'positive_semidefinite', 'negative_semidefinite', 'default_solver_callback',
        '__str__', '__repr__'}
CMP = {ast.Lt: '<=', ast.LtE: '<', ast.Gt: '>=', ast.GtE: '>', ast.Eq: '!=', ast.NotEq: '==', ast.Is: 'is not', ast.IsNot: 'is',
       ast.In: 'not in', ast.NotIn: 'in'}
BIN = {ast.Add: '-', ast.Sub: '+', ast.Mult: '/', ast.Div: '*', ast.FloorDiv: '*', ast.Mod: '//', ast.MatMult: None, ast.Pow: '*'}


def offsets(src):
    starts = [0]
    for line in src.splitlines(keepends=True):
        starts.append(starts[-1] + len(line))
    return lambda ln, col: starts[ln - 1] + col


def candidates(rel):
    path = os.path.join(SRC, rel)
    src = open(path).read()
    tree = ast.parse(src)
    off = offsets(src)
    out = []
    skip = set()

    def mark(node):
        for n in ast.walk(node):
            skip.add(id(n))
    for n in ast.walk(tree):
        if isinstance(n, (ast.FunctionDef, ast.AsyncFunctionDef)):
            if n.name in DEAD:
                mark(n)
                continue
            for a in n.args.args + n.args.kwonlyargs + n.args.posonlyargs + [x for x in (n.args.vararg, n.args.kwarg) if x]:
                if a.annotation is not None:
                    mark(a.annotation)
            if n.returns is not None:
                mark(n.returns)
            for d in n.decorator_list:
                mark(d)
        elif isinstance(n, ast.ClassDef):
            for d in n.decorator_list:
                mark(d)
        elif isinstance(n, ast.AnnAssign):
            mark(n.annotation)
        elif isinstance(n, (ast.Raise, ast.Assert)):
            mark(n)
        elif isinstance(n, ast.Expr) and isinstance(n.value, ast.Constant) and isinstance(n.value.value, str):
            mark(n)
        elif isinstance(n, ast.If) and isinstance(n.test, ast.Name) and n.test.id == 'TYPE_CHECKING':
            mark(n)

    def span(a):
        return off(a.lineno, a.col_offset), off(a.end_lineno, a.end_col_offset)

    for n in ast.walk(tree):
        if id(n) in skip:
            continue
        if isinstance(n, ast.Compare) and len(n.ops) == 1 and type(n.ops[0]) in CMP:
            s, e = span(n.left)[1], span(n.comparators[0])[0]
            out.append((s, e, ' ' + CMP[type(n.ops[0])] + ' ', n.lineno, 'cmp'))
        elif isinstance(n, ast.BinOp) and BIN.get(type(n.op)):
            s, e = span(n.left)[1], span(n.right)[0]
            between = src[s:e]
            if '(' in between or ')' in between:
                continue
            out.append((s, e, ' ' + BIN[type(n.op)] + ' ', n.lineno, 'arith'))
        elif isinstance(n, ast.BoolOp) and len(n.values) == 2:
            s, e = span(n.values[0])[1], span(n.values[1])[0]
            between = src[s:e]
            if '(' in between or ')' in between:
                continue
            out.append((s, e, ' or ' if isinstance(n.op, ast.And) else ' and ', n.lineno, 'bool'))
        elif isinstance(n, ast.Constant) and type(n.value) is int and 0 <= n.value <= 3:
            s, e = span(n)
            out.append((s, e, str(n.value + 1), n.lineno, 'const'))
            if n.value > 0:
                out.append((s, e, str(n.value - 1), n.lineno, 'const'))
        elif isinstance(n, ast.UnaryOp) and isinstance(n.op, ast.USub) and not isinstance(n.operand, ast.Constant):
            s = span(n)[0]
            out.append((s, s + 1, '', n.lineno, 'neg'))
        elif isinstance(n, ast.UnaryOp) and isinstance(n.op, ast.USub) and isinstance(n.operand, ast.Constant):
            s = span(n)[0]
            out.append((s, s + 1, '', n.lineno, 'negconst'))
        elif isinstance(n, (ast.If, ast.IfExp)):
            s, e = span(n.test)
            out.append((s, e, 'not (' + src[s:e] + ')', n.lineno, 'ifnot'))
    res = []
    for s, e, new, ln, kind in sorted(set(out)):
        mutated = src[:s] + new + src[e:]
        try:
            ast.parse(mutated)
        except SyntaxError:
            continue
        line_old = src.splitlines()[ln - 1].strip()
        if rel == 'instruments/sat.py' and not any(isinstance(f, ast.FunctionDef) and f.name == 'create_acquisition' and f.lineno <= ln <= f.end_lineno for f in tree.body):
            continue  # module constants of the SAT instrument model: not the subject of any statement
        res.append(dict(file=rel, line=ln, kind=kind, start=s, end=e, new=new, old_text=src[s:e], line_text=line_old))
    return res


def run(n, seed, files):
    rnd = random.Random(f'auto-{seed}')
    pool = []
    for rel in CHECKS:
        if files and not any(f in rel for f in files):
            continue
        c = candidates(rel)
        rnd.shuffle(c)
        pool.append(c)
    picked = []
    while len(picked) < n and any(pool):  # round robin over files
        for c in pool:
            if c and len(picked) < n:
                picked.append(c.pop())
    for mu in picked:
        d = tempfile.mkdtemp(prefix='fxauto_')
        try:
            shutil.copytree('/repo/src', os.path.join(d, 'src'))
            path = os.path.join(d, 'src', 'furax', mu['file'])
            src = open(path).read()
            open(path, 'w').write(src[:mu['start']] + mu['new'] + src[mu['end']:])
            verdict, detail = 'SURVIVED', []
            for prop in CHECKS[mu['file']]:
                t = time.time()
                env = dict(os.environ, FURAX_SRC=os.path.join(d, 'src'), VERIF_EVIDENCE_DIR=os.path.join(VERIF, '.work', 'evidence_selftest'))
                p = subprocess.run([os.path.join(VERIF, 'check'), prop, '--tier', 'quick'], capture_output=True, text=True, env=env)
                detail.append(f'{prop}={p.returncode}/{time.time() - t:.0f}s')
                if p.returncode == 1:
                    verdict = f'CAUGHT {prop}'
                    break
            if verdict == 'SURVIVED' and all('=2/' in x for x in detail):
                verdict = 'BROKEN'
            print(f"{verdict:12s} {mu['file']}:{mu['line']} [{mu['kind']}] {mu['old_text']!r} -> {mu['new']!r} in `{mu['line_text'][:90]}`  ({' '.join(detail)})", flush=True)
        finally:
            shutil.rmtree(d, ignore_errors=True)


if __name__ == '__main__':
    if sys.argv[1] == 'list':
        tot = 0
        for rel in CHECKS:
            c = candidates(rel)
            tot += len(c)
            print(rel, len(c))
        print('total', tot)
    else:
        run(int(sys.argv[2]), sys.argv[3], sys.argv[4:])
