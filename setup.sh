#!/bin/bash
# Builds the overlay virtualenv used by every check (offline; wheelhouse only).
# Idempotent: safe to call from setup_cmd and lazily from ./check.
set -e
HERE="$(cd "$(dirname "$0")" && pwd)"
VENV="$HERE/.venv"
BASE=/venv
STAMP="$VENV/.ok"
if [ -f "$STAMP" ]; then exit 0; fi
exec 9>"$HERE/.setup.lock"
flock 9
if [ -f "$STAMP" ]; then exit 0; fi
rm -rf "$VENV"
"$BASE/bin/python" -m venv "$VENV"
SP="$("$VENV/bin/python" -c 'import sysconfig; print(sysconfig.get_paths()["purelib"])')"
BSP="$("$BASE/bin/python" -c 'import sysconfig; print(sysconfig.get_paths()["purelib"])')"
# make the repository's environment (jax, equinox, lineax, furax editable install ...) visible
echo "import site; site.addsitedir('$BSP')" > "$SP/zz_base_venv.pth"
PIP_NO_INDEX=1 "$VENV/bin/python" -m pip install -q --no-index --find-links /opt/veriftools/wheels \
    z3-solver cvc5 crosshair-tool >/dev/null
"$VENV/bin/python" - <<'PY'
import z3, cvc5, crosshair, jax, furax
print('setup ok: z3', z3.get_version_string(), 'jax', jax.__version__)
PY
touch "$STAMP"
