"""Program-level helpers on top of the catalogue: concrete typing, symbolic application, replay."""
from __future__ import annotations

import contextlib

import jax
import jax.numpy as jnp
import numpy as np

from . import interp as E
from . import stubs
from .catalogue import FAM, Builder, show
from .common import S, model_array

stubs.install_linear_solve_stub()


def default_param(k, shape, flags=''):
    """Fixed generic concrete values (distinct, non-zero, positive) used only for typing/replay defaults."""
    n = int(np.prod(shape)) if shape else 1
    vals = 0.5 + 0.25 * ((np.arange(n) * 3 + k) % 7)
    from .common import _DEFAULT
    return jnp.asarray(vals.reshape(shape), dtype=_DEFAULT['dtype'])


def concrete_params(bld: Builder, e):
    return [default_param(i, shape, flags) for i, (_, shape, flags, _) in enumerate(bld.layout(e))]


def build_concrete(fam, e, params=None):
    bld = Builder(fam)
    if params is None:
        params = concrete_params(bld, e)
    return bld.build(e, params)


def optree(op):
    """Nested class-name signature of an operator (to measure whether reduce() rewrote anything)."""
    from furax._base.blocks import AbstractBlockOperator
    from furax._base.core import AdditionOperator, CompositionOperator, _AbstractLazyDualOperator
    name = type(op).__name__
    if isinstance(op, CompositionOperator):
        return (name,) + tuple(optree(o) for o in op.operands)
    if isinstance(op, AdditionOperator):
        return (name,) + tuple(optree(o) for o in op.operand_leaves)
    if isinstance(op, AbstractBlockOperator):
        return (name,) + tuple(optree(o) for o in op.block_leaves)
    if isinstance(op, _AbstractLazyDualOperator):
        return (name, optree(op.operator))
    return name


def sym_eval(ctx, fam, e, fn, arg_struct=None, argname='x', x64=True):
    """Interpret ``fn(op, arg)`` where op = build(e, symbolic params) is built INSIDE the trace."""
    bld = Builder(fam)
    pst = bld.structs(e)
    if arg_struct is None:
        out, shape, closed = E.run(ctx, lambda p: fn(bld.build(e, list(p))), [('p', pst, 'sym')], x64=x64)
    else:
        out, shape, closed = E.run(ctx, lambda p, x: fn(bld.build(e, list(p)), x),
                                   [('p', pst, 'sym'), (argname, arg_struct, 'sym')], x64=x64)
    return out, shape


def params_from_model(fam, e, model):
    bld = Builder(fam)
    out = []
    for i, (_, shape, flags, _) in enumerate(bld.layout(e)):
        dflt = np.asarray(default_param(i, shape, flags)).reshape(-1)
        out.append(jnp.asarray(model_array(model, 'p', i, shape, default=lambda k, d=dflt: float(d[k]))))
    return out


@contextlib.contextmanager
def real_solver():
    """Run with the genuine lineax.linear_solve (replays must not use the contract stub)."""
    import lineax as lx
    cur = lx.linear_solve
    orig = stubs.ORIG.get('linear_solve')
    if orig is not None:
        lx.linear_solve = orig
    try:
        yield
    finally:
        lx.linear_solve = cur


def numeric_validate(ctx, fam, e, fn, out_sym, xin, seed=0, argname='x'):
    """Translator validation: evaluate the interpreter's symbolic result at random rational points and compare with the real
    library executing ``fn(op, x)`` on the same values (float64).  Only for results without definitional atoms (division,
    ite, stub solutions, rounding, uninterpreted functions).  Returns None if not applicable, else (ok, message)."""
    import math
    import random
    from fractions import Fraction
    from .common import model_tree
    if ctx.divs or ctx.ites or ctx.eqs or ctx.rounds or ctx.ufs:
        return None
    bld = Builder(fam)
    rnd = random.Random(f'{seed}-{show(e)}')
    elems = E.flat_elems(out_sym, ctx)
    atoms = set()
    for p in elems:
        if isinstance(p, E.Cyc):
            return None
        atoms |= p.atoms()
    values, model = {}, {}
    for a in sorted(atoms):
        if a.startswith(('C$', 'S$')):
            continue
        values[a] = Fraction(rnd.randint(-12, 12), rnd.choice([1, 2, 4]))
        model[a] = str(values[a])
    for a in sorted(atoms):
        if a.startswith(('C$', 'S$')):
            ang = a[2:]
            if ang.startswith('const['):
                th = float(Fraction(ang[6:-1]))
            else:
                if ang not in values:
                    values[ang] = Fraction(rnd.randint(-12, 12), 4)
                    model[ang] = str(values[ang])
                th = float(values[ang])
            values[a] = math.cos(th) if a[0] == 'C' else math.sin(th)
    got = [float(p.subs(values)) for p in elems]
    params = params_from_model(fam, e, model)
    op = bld.build(e, params)
    x = model_tree(model, argname, xin)
    with real_solver():
        real = fn(op, x)
    want = [float(v) for l in jax.tree.leaves(real) for v in np.asarray(l, dtype=np.float64).reshape(-1)]
    if len(got) != len(want):
        return False, f'interpreter produced {len(got)} values, the library {len(want)}'
    worst = max((abs(a - b) / max(1.0, abs(b)) for a, b in zip(got, want)), default=0.0)
    return worst < 1e-9, f'max relative deviation interpreter vs library {worst:.2e}'
