"""Helpers shared by the check modules."""
from __future__ import annotations

import hashlib
from fractions import Fraction

import jax
import jax.numpy as jnp
import numpy as np

from . import interp as E
from . import smt
from .poly import Poly

f64 = jnp.float64
f32 = jnp.float32


_DEFAULT = {'dtype': f64}


def S(*shape, dtype=None):
    return jax.ShapeDtypeStruct(tuple(shape), _DEFAULT['dtype'] if dtype is None else dtype)


class default_dtype:
    """Context manager: the float dtype used by S() and by the catalogue's structures/parameters."""

    def __init__(self, dt):
        self.dt = dt

    def __enter__(self):
        self.old = _DEFAULT['dtype']
        _DEFAULT['dtype'] = self.dt

    def __exit__(self, *a):
        _DEFAULT['dtype'] = self.old


def structs_equal(a, b):
    """Pytree structure, shapes and dtypes of two structure pytrees."""
    la, ta = jax.tree.flatten(a)
    lb, tb = jax.tree.flatten(b)
    if ta != tb or len(la) != len(lb):
        return False
    return all(tuple(x.shape) == tuple(y.shape) and np.dtype(x.dtype) == np.dtype(y.dtype) for x, y in zip(la, lb))


def describe_struct(a):
    return jax.tree.map(lambda l: f'{np.dtype(l.dtype).name}{list(l.shape)}', a)


def pairs(L, R, ctx=None):
    l, r = E.flat_elems(L, ctx), E.flat_elems(R, ctx)
    if len(l) != len(r):
        raise ValueError(f'size mismatch {len(l)} vs {len(r)}')
    return list(zip(l, r))


def inner(u, v):
    """Leaf-wise Euclidean inner product of two pytrees of symbolic/concrete arrays (harness's own)."""
    fu, fv = E.flat_elems(u), E.flat_elems(v)
    assert len(fu) == len(fv)
    acc = Poly()
    for a, b in zip(fu, fv):
        acc = acc + a * b
    return acc


class Decider:
    """Accumulates solver statistics for one case; every obligation goes through ``equal``/``holds``."""

    def __init__(self, timeout_ms=30000, cross_every=7):
        self.n = 0
        self.ok = 0
        self.t = 0.0
        self.tmax = 0.0
        self.cvc5_checked = 0
        self.cvc5_disagree = 0
        self.timeout_ms = timeout_ms
        self.cross_every = cross_every
        self.nontrivial = False
        self.digests = []

    def decide(self, ctx, goal_pairs=None, assumptions=(), goal=None, expect=None):
        res = smt.solve(ctx, goal_pairs, assumptions=assumptions, goal=goal, timeout_ms=self.timeout_ms,
                        want_smt2=True)
        self.n += 1
        self.t += res.seconds
        self.tmax = max(self.tmax, res.seconds)
        self.digests.append(res.digest)
        if getattr(res, 'syntactic_diff', 0) or goal is not None:
            self.nontrivial = True
        # cvc5 re-decides every sat and a deterministic subset of the other verdicts
        cross = res.status == 'sat' or (int(res.digest, 16) % self.cross_every == 0)
        if cross and res.status in ('sat', 'unsat'):
            try:
                other = smt.cvc5_check(res.smt2, timeout_ms=min(self.timeout_ms, 10000))
            except Exception as ex:  # noqa: BLE001
                other = f'error {type(ex).__name__}'
            self.cvc5_checked += 1
            if other in ('sat', 'unsat') and other != res.status:
                self.cvc5_disagree += 1
                res.status = 'unknown'
                res.reason = f'z3 and cvc5 disagree ({other})'
        res.smt2 = None
        if res.status == 'unsat':
            self.ok += 1
        return res

    def stats(self):
        return dict(obligations=self.n, solver_s=self.t, solver_max_s=self.tmax, cvc5_checked=self.cvc5_checked,
                    cvc5_disagree=self.cvc5_disagree)


def model_array(model, name, leaf_index, shape, default=None):
    """Concrete float64 array for argument ``name``, leaf ``leaf_index`` from a solver model.

    Angle atoms are recovered from their (C$, S$) pair; atoms absent from the model get ``default``
    (a fixed non-degenerate value: the solver did not care).
    """
    base = f'{name}{leaf_index}'
    out = np.empty(shape, dtype=np.float64)

    def val(atom, k):
        if atom in model and model[atom] is not None:
            return float(Fraction(model[atom]))
        c, s = model.get('C$' + atom), model.get('S$' + atom)
        if c is not None and s is not None:
            return float(np.arctan2(float(Fraction(s)), float(Fraction(c))))
        if default is not None:
            return default(k)
        return 0.25 + 0.5 * ((k * 7) % 5)

    if tuple(shape) == ():
        out[()] = val(base, 0)
    else:
        for k, idx in enumerate(np.ndindex(*shape)):
            out[idx] = val(base + '_' + '_'.join(map(str, idx)), k)
    return out


def model_tree(model, name, struct, default=None):
    leaves, tdef = jax.tree.flatten(struct)
    return jax.tree.unflatten(tdef, [jnp.asarray(model_array(model, name, i, l.shape, default), dtype=l.dtype)
                                     for i, l in enumerate(leaves)])


def trees_close(a, b, rtol=1e-7, atol=1e-9):
    la, ta = jax.tree.flatten(a)
    lb, tb = jax.tree.flatten(b)
    if ta != tb:
        return False, f'tree structures differ: {ta} vs {tb}'
    worst = 0.0
    for x, y in zip(la, lb):
        x, y = np.asarray(x), np.asarray(y)
        if x.shape != y.shape:
            return False, f'shapes differ: {x.shape} vs {y.shape}'
        if not (np.all(np.isfinite(x)) and np.all(np.isfinite(y))):
            # NaN/Inf in a replay means the real computation divided by zero or overflowed: never "equal"
            return False, f'non-finite values in the real computation ({int(np.sum(~np.isfinite(x)))} vs {int(np.sum(~np.isfinite(y)))} entries)'
        scale = max(1.0, float(np.max(np.abs(y), initial=0.0)))
        err = float(np.max(np.abs(x - y), initial=0.0)) / scale
        worst = max(worst, err)
    return worst <= max(rtol, atol), f'max relative difference {worst:.3e}'


def short_hash(obj):
    return hashlib.sha1(repr(obj).encode()).hexdigest()[:10]
