"""Must-fail twin of c07_driver: the same harness on a driver whose step-back (`index -= 1`) is removed."""
import inspect
import os
import sys
import textwrap
from typing import List

sys.path.insert(0, os.path.dirname(os.path.dirname(os.path.dirname(os.path.abspath(__file__)))))
import fxv.env  # noqa: E402,F401  (must precede any furax import: selects FURAX_SRC)
import furax._base.rules as R  # noqa: E402
from fxv.ch import c07_model as M  # noqa: E402
from fxv.ch.c07_model import NK, NS, compatible  # noqa: E402

src = textwrap.dedent(inspect.getsource(R.AlgebraicReductionRule.apply))
assert 'index -= 1' in src
src = src.replace('index -= 1', 'index -= 0')
ns = {}
exec(compile(src, '<mutated apply>', 'exec'), R.__dict__, ns)
_mut_apply = ns['apply']
MAXLEN = int(os.environ.get('C07_MAXLEN', '4'))
FIRST = int(os.environ.get('C07_FIRST', '-1'))
NCODES = NK + 2 * NS
ALLOWED = [int(c) for c in os.environ.get('C07_ALLOWED', '').split(',') if c]


def mutated_impl(codes, values):
    M.install()
    try:
        out = _mut_apply(R.AlgebraicReductionRule(), M.make_ops(codes, values))
    finally:
        M.uninstall()
    return M.normal_form_ok(codes, values, out)


def first_ok(codes):
    return FIRST < 0 or (len(codes) > 0 and codes[0] == FIRST)


def in_range(codes):
    if ALLOWED:
        return all(c in ALLOWED for c in codes)
    return all(0 <= c < NK for c in codes)


def small(values):
    return all(1 <= v <= 2 for v in values)


def _normal_form_mut(codes: List[int], values: List[int]) -> bool:
    """
    pre: 2 <= len(codes) <= MAXLEN
    pre: len(values) == len(codes)
    pre: in_range(codes)
    pre: first_ok(codes)
    pre: compatible(codes)
    pre: small(values)
    post: _
    """
    return mutated_impl(codes, values)
