"""Must-fail twin: the same harness on a Config whose __exit__ restores the default instead of resetting the token."""
import os
import sys
from typing import List

sys.path.insert(0, os.path.dirname(os.path.dirname(os.path.dirname(os.path.abspath(__file__)))))
import fxv.env  # noqa: E402,F401  (must precede any furax import: selects FURAX_SRC)
import furax._base.config as C  # noqa: E402
from fxv.ch import c19_model as M  # noqa: E402


def bad_exit(self, exc_type, exc_val, exc_tb):
    C._config_var.set(M.DEFAULT)


C.Config.__exit__ = bad_exit


def all_in(xs, lo, hi):
    return all(lo <= x <= hi for x in xs)


def _scoped_mut(events: List[int]) -> bool:
    """
    pre: 1 <= len(events) <= 4
    pre: all_in(events, 0, 8)
    post: _
    """
    return M.scoped_impl(events)
