"""CrossHair harness for C19 (contracts only on the thin outer functions)."""
import os
import sys
from typing import List

sys.path.insert(0, os.path.dirname(os.path.dirname(os.path.dirname(os.path.abspath(__file__)))))
from fxv.ch.c19_model import isolated_impl, scoped_impl  # noqa: E402

MAXLEN = int(os.environ.get('C19_MAXLEN', '4'))
FIRST = int(os.environ.get('C19_FIRST', '-1'))
MODE = os.environ.get('C19_MODE', 'scoped')
ALLOWED = [int(c) for c in os.environ.get('C19_ALLOWED', '').split(',') if c]


def first_ok(events):
    return FIRST < 0 or (len(events) > 0 and events[0] == FIRST)


def all_in(xs, lo, hi):
    if ALLOWED and hi > 3:
        return all(x in ALLOWED for x in xs)
    return all(lo <= x <= hi for x in xs)


if MODE == 'scoped':
    def _scoped(events: List[int]) -> bool:
        """
        pre: 1 <= len(events) <= MAXLEN
        pre: all_in(events, 0, 11)
        pre: first_ok(events)
        post: _
        """
        return scoped_impl(events)
else:
    def _isolated(schedule: List[int], events: List[int]) -> bool:
        """
        pre: 1 <= len(events) <= MAXLEN
        pre: len(schedule) == len(events)
        pre: all_in(schedule, 0, 1)
        pre: all_in(events, 0, 3)
        pre: first_ok(events)
        post: _
        """
        return isolated_impl(schedule, events)
