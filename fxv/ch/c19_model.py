"""C19: history interpreter over the REAL Config / ConfigState / _config_var / InverseOperator with an explicit-stack oracle."""
from __future__ import annotations

import contextvars
import os
import sys

sys.path.insert(0, os.path.dirname(os.path.dirname(os.path.dirname(os.path.abspath(__file__)))))
import fxv.env  # noqa: E402,F401

import jax  # noqa: E402
import jax.numpy as jnp  # noqa: E402
import lineax as lx  # noqa: E402

import furax._base.core as core  # noqa: E402
from furax._base.config import Config  # noqa: E402
from furax._base.core import AbstractLinearOperator, InverseOperator, square  # noqa: E402

try:
    from crosshair.tracers import NoTracing
except Exception:  # noqa: BLE001
    import contextlib
    NoTracing = contextlib.nullcontext


@square
class Toy(AbstractLinearOperator):
    def mv(self, x):
        return x

    def in_structure(self):
        return jax.ShapeDtypeStruct((2,), jnp.float32)


TOY = Toy()
X = jnp.ones(2, jnp.float32)
DEFAULT = Config.instance()
S1, S2 = lx.CG(rtol=1e-3, atol=1e-3), lx.GMRES(rtol=1e-2, atol=1e-2)
# setting 2 names a preconditioner: InverseOperator.mv wraps it for lineax, which must not alter the captured configuration
SETTINGS = [dict(solver=S1), dict(solver_throw=True), dict(solver=S2, solver_options={'k': 2, 'preconditioner': TOY})]


def fresh(setting):
    """A Config(**kwargs) argument set with its own options dict (the user's dict must not be shared between histories)."""
    return {k: (dict(v) if isinstance(v, dict) else v) for k, v in setting.items()}
SEEN = []
_real_solve = lx.linear_solve
_real_cb = jax.debug.callback


def rec_solve(A, b, solver=None, throw=None, options=None, **kw):
    options = dict(options or {})
    pre = options.get('preconditioner')
    if isinstance(pre, lx.TaggedLinearOperator):
        options['preconditioner'] = pre.operator       # mv hands lineax the configured preconditioner, tagged
    SEEN.append((solver, throw, tuple(sorted(options.items()))))
    return lx.Solution(value=b, result=lx.RESULTS.successful, stats={}, state=None)


def install():
    lx.linear_solve = rec_solve
    jax.debug.callback = lambda *a, **k: None


def uninstall():
    lx.linear_solve = _real_solve
    jax.debug.callback = _real_cb


def view(cs):
    return (cs.solver, cs.solver_throw, tuple(sorted(cs.solver_options.items())))


def run_history(events):
    """Events: 0-2 enter setting k; 3 leave normally; 4 leave through an exception; 5 create inverse; 6 apply last inverse; 7 read;
    8 transpose the last inverse (the result is tracked as a further inverse with the same expected configuration);
    9/10 construct (without entering) a Config with setting 0/1; 11 enter the most recently constructed one if it is not active already.
    For such a deferred block the named setting must be in force inside, the un-named ones may be inherited from construction or
    from entry time (the property does not say), and leaving it must restore what was active before it was ENTERED."""
    install()
    try:
        model = [view(DEFAULT)]
        cms, invs, inv_model = [], [], []
        made = None
        for e in events:
            if 0 <= e < 3:
                cm = Config(**fresh(SETTINGS[e]))
                entered = cm.__enter__()
                cms.append(cm)
                so, th, op = model[-1]
                s = SETTINGS[e]
                model.append((s.get('solver', so), s.get('solver_throw', th), tuple(sorted(s['solver_options'].items())) if 'solver_options' in s else op))
                if view(entered) != model[-1]:
                    return False
            elif e in (9, 10):
                made = (Config(**fresh(SETTINGS[e - 9])), e - 9, model[-1])
            elif e == 11 and made is not None and not any(cm is made[0] for cm in cms):
                cm, k, at_ctor = made
                entered = cm.__enter__()
                cms.append(cm)
                got = view(entered)
                s = SETTINGS[k]
                allowed = []
                for so, th, op in (at_ctor, model[-1]):
                    allowed.append((s.get('solver', so), s.get('solver_throw', th), tuple(sorted(s['solver_options'].items())) if 'solver_options' in s else op))
                if got not in allowed:
                    return False
                model.append(got)
            elif e == 3 and cms:
                cms.pop().__exit__(None, None, None)
                model.pop()
            elif e == 4 and cms:
                err = ValueError('boom')
                if cms.pop().__exit__(ValueError, err, None):
                    return False  # the exception must propagate
                model.pop()
            elif e == 5:
                with NoTracing():
                    invs.append(InverseOperator(TOY))
                inv_model.append(model[-1])
            elif e == 8 and invs:
                # the transpose of a lazy inverse is again a lazy inverse: it must keep the configuration of the original
                with NoTracing():
                    invs.append(invs[-1].T)
                inv_model.append(inv_model[-1])
            elif e == 6 and invs:
                with NoTracing():
                    del SEEN[:]
                    invs[-1].mv(X)
                    good = len(SEEN) == 1 and SEEN[0] == inv_model[-1]
                if not good:
                    return False
            if view(Config.instance()) != model[-1]:
                return False
        while cms:
            cms.pop().__exit__(None, None, None)
            model.pop()
            if view(Config.instance()) != model[-1]:
                return False
        with NoTracing():
            for inv, m in zip(invs, inv_model):
                del SEEN[:]
                inv.mv(X)
                if not SEEN or SEEN[0] != m:
                    return False
                if hasattr(inv, 'config') and view(inv.config) != m:
                    return False
        return Config.instance() is DEFAULT
    finally:
        uninstall()


def scoped_impl(events):
    return contextvars.copy_context().run(run_history, list(events))


class Task:
    """One logical thread: its own contextvars.Context (what a new thread gets) and its own explicit-stack oracle."""

    def __init__(self):
        self.ctx = contextvars.copy_context()
        self.cms = []
        self.model = [view(DEFAULT)]

    def step(self, e):
        return self.ctx.run(self._step, e)

    def _step(self, e):
        if 0 <= e < 3:
            cm = Config(**fresh(SETTINGS[e]))
            cm.__enter__()
            self.cms.append(cm)
            so, th, op = self.model[-1]
            s = SETTINGS[e]
            self.model.append((s.get('solver', so), s.get('solver_throw', th), tuple(sorted(s['solver_options'].items())) if 'solver_options' in s else op))
        elif e == 3 and self.cms:
            self.cms.pop().__exit__(None, None, None)
            self.model.pop()
        return view(Config.instance()) == self.model[-1]


def isolated_impl(schedule, events):
    tasks = [Task(), Task()]
    for who, e in zip(schedule, events):
        if not tasks[who].step(e):
            return False
    return all(t.ctx.run(lambda: view(Config.instance())) == t.model[-1] for t in tasks) and Config.instance() is DEFAULT


def threads_concrete(n=200):
    """Concrete: real threads interleaved by barriers must each observe only their own configuration."""
    import threading
    bad = []
    barrier = threading.Barrier(2)

    def worker(k):
        try:
            for i in range(n):
                with Config(**SETTINGS[k]) as c:
                    barrier.wait(timeout=10)
                    want = view(DEFAULT)[:0]
                    got = view(Config.instance())
                    exp_solver = SETTINGS[k].get('solver', DEFAULT.solver)
                    exp_throw = SETTINGS[k].get('solver_throw', DEFAULT.solver_throw)
                    if got[0] is not exp_solver or got[1] != exp_throw:
                        bad.append((k, i, 'inside'))
                    barrier.wait(timeout=10)
                if Config.instance() is not DEFAULT:
                    bad.append((k, i, 'after'))
        except Exception as ex:  # noqa: BLE001
            bad.append((k, repr(ex)))
    ts = [threading.Thread(target=worker, args=(k,)) for k in (0, 1)]
    [t.start() for t in ts]
    [t.join() for t in ts]
    return bad
