"""CrossHair harness for C07: the REAL reduction driver on a symbolic chain of abstract kinds.

The contract is on the thin outer function only (a contracted helper would be short-circuited by CrossHair).
Environment: C07_MAXLEN (chain length bound), C07_FIRST / C07_SECOND (first / second code fixed per process, -1 = any).
"""
import os
import sys
from typing import List

sys.path.insert(0, os.path.dirname(os.path.dirname(os.path.dirname(os.path.abspath(__file__)))))
from fxv.ch.c07_model import NAMES, NK, NS, TABLE, compatible, fixpoint_impl  # noqa: E402

MAXLEN = int(os.environ.get('C07_MAXLEN', '3'))
FIRST = int(os.environ.get('C07_FIRST', '-1'))
SECOND = int(os.environ.get('C07_SECOND', '-1'))
NCODES = NK + 2 * NS
MINLEN = int(os.environ.get('C07_MINLEN', '2'))
ALLOWED = [int(c) for c in os.environ.get('C07_ALLOWED', '').split(',') if c]
NESTED = os.environ.get('C07_NESTED', '') == '1'


def first_ok(codes):
    if SECOND >= 0 and not (len(codes) > 1 and codes[1] == SECOND):
        return False
    return FIRST < 0 or (len(codes) > 0 and codes[0] == FIRST)


def in_range(codes):
    if ALLOWED:
        return all(c in ALLOWED for c in codes)
    return all(0 <= c < NCODES for c in codes)


def small(values):
    return all(-3 <= v <= 3 and v != 0 for v in values)


if not NESTED:
    def _normal_form(codes: List[int], values: List[int]) -> bool:
        """
        pre: MINLEN <= len(codes) <= MAXLEN
        pre: len(values) == len(codes)
        pre: in_range(codes)
        pre: first_ok(codes)
        pre: compatible(codes)
        pre: small(values)
        post: _
        """
        return fixpoint_impl(codes, values)


# ---- nested form: FIRST, p, q, Y [, Z] where p @ q is a pattern that vanishes (indices into concrete lists are symbolic) ----------
VANISHING = [list(k) for k, v in TABLE.items() if v == [] and (not ALLOWED or (k[0] in ALLOWED and k[1] in ALLOWED))]
TAILS = list(ALLOWED) if ALLOWED else list(range(NCODES))


def nested_impl(ip, iy, iz, v0, v1):
    chain = [FIRST, VANISHING[ip][0], VANISHING[ip][1], TAILS[iy]]
    if iz >= 0:
        chain.append(TAILS[iz])
    if not compatible(chain):
        return True
    return fixpoint_impl(chain, [v0, 1, 1, v1, 2][:len(chain)])


if NESTED:
    def _nested_form(ip: int, iy: int, iz: int, v0: int, v1: int) -> bool:
        """
        pre: 0 <= ip < len(VANISHING)
        pre: 0 <= iy < len(TAILS)
        pre: -1 <= iz < len(TAILS)
        pre: 1 <= v0 <= 2 and 1 <= v1 <= 2
        post: _
        """
        return nested_impl(ip, iy, iz, v0, v1)
