"""C07: abstract table derived from the REAL rule registry on REAL operator instances, and stub operands
on which the REAL reduction driver (AlgebraicReductionRule / IdentityRule / HomothetyRule .apply) is run.

Imported both by the check (concrete layers) and by the CrossHair harness module c07_driver.py.
"""
from __future__ import annotations

import os
import sys

sys.path.insert(0, os.path.dirname(os.path.dirname(os.path.dirname(os.path.abspath(__file__)))))
import fxv.env  # noqa: E402,F401

import jax  # noqa: E402
import jax.numpy as jnp  # noqa: E402

import furax._base.rules as R  # noqa: E402
from furax import MoveAxisOperator, RavelOperator, ReshapeOperator  # noqa: E402
from furax._base.blocks import BlockColumnOperator, BlockDiagonalOperator, BlockRowOperator  # noqa: E402
from furax._base.core import AdditionOperator, CompositionOperator, HomothetyOperator, IdentityOperator, TransposeOperator  # noqa: E402
from furax._base.dense import DenseBlockDiagonalOperator  # noqa: E402
from furax._base.diagonal import DiagonalOperator  # noqa: E402
from furax._base.indices import IndexOperator  # noqa: E402
from furax._base.linear import PackOperator  # noqa: E402
from furax.landscapes import StokesIQUPyTree  # noqa: E402
from furax.operators.hwp import HWPOperator  # noqa: E402
from furax.operators.polarizers import LinearPolarizerOperator  # noqa: E402
from furax.operators.qu_rotations import QURotationOperator, QURotationTransposeOperator  # noqa: E402

f32 = jnp.float32
S = lambda *s: jax.ShapeDtypeStruct(s, f32)  # noqa: E731
iqu = StokesIQUPyTree.structure_for((2,), f32)
REAL_REGISTRY = list(R.BINARY_RULE_REGISTRY)
REAL_H, REAL_I = HomothetyOperator, IdentityOperator

# ---- catalogue of real instances ("kinds") ------------------------------------------------------
Rot = QURotationOperator(jnp.array([.1, .2], f32), iqu)
RotF = QURotationOperator(jnp.array([.3, .4], f32), iqu)           # a second rotation (its transpose RotFT is a kind too)
RotN = QURotationOperator(jnp.array([.5, .6], f32), iqu)           # stands for rotations created by rules (no partner in the chain)
Hwp = HWPOperator(iqu)
Pol = LinearPolarizerOperator(iqu)
Dq = DiagonalOperator(jnp.array([1., 2.], f32), in_structure=iqu)    # inert on Stokes
Pk = PackOperator(jnp.array([True, False]), iqu)
P = IndexOperator(jnp.array([0, 0, 1]), in_structure=S(2))            # non-unique indexing 2 -> 3
U = IndexOperator(jnp.array([1, 0]), in_structure=S(2), unique_indices=True)
U2 = IndexOperator((slice(0, 2), 0), in_structure=S(2, 1))           # duplicate-free indexing of TWO axes, (2,1) -> (2,)
Dv = DiagonalOperator(jnp.array([1., 2.], f32), in_structure=S(2))    # inert on vec2
A = DenseBlockDiagonalOperator(jnp.array([[2., 1.], [1., 2.]], f32), S(2), 'ij,j->i')   # SPD, reduced
AI = A.I
W = DenseBlockDiagonalOperator(jnp.ones((3, 2), f32), S(2), 'ij,j->i')   # inert 2 -> 3
Rs = ReshapeOperator((2, 1), in_structure=S(2))
Rv = RavelOperator(in_structure=S(2, 1))
Mv = MoveAxisOperator(0, 1, in_structure=S(2, 1))
MvI = MoveAxisOperator(1, 0, in_structure=S(1, 2))
BR = BlockRowOperator([Dv, A])
BD = BlockDiagonalOperator([Dv, Dv])
BC = BlockColumnOperator([A, Dv])
CAT = {
    'Rot': Rot, 'RotT': Rot.T, 'RotF': RotF, 'RotFT': RotF.T, 'RotN': RotN, 'RotNT': RotN.T, 'Hwp': Hwp, 'Pol': Pol, 'Dq': Dq, 'Pk': Pk, 'PkT': Pk.T,
    'P': P, 'PT': P.T, 'U': U, 'UT': U.T, 'U2': U2, 'U2T': U2.T, 'Dv': Dv, 'A': A, 'AI': AI, 'W': W, 'Rs': Rs, 'RsT': Rs.T, 'Mv': Mv, 'MvI': MvI,
    'BR': BR, 'BD': BD, 'BC': BC,
}
NAMES = list(CAT)
NK = len(NAMES)


def classify(op):
    """Kind of an operator produced by a rule (or found in a reduced chain)."""
    for n, o in CAT.items():
        if op is o:
            return n
    if isinstance(op, REAL_H):
        return 'HOMO'
    if isinstance(op, REAL_I):
        return 'ID'
    if isinstance(op, QURotationTransposeOperator):
        return 'RotT' if op.operator is Rot else ('RotFT' if op.operator is RotF else 'RotNT')
    if isinstance(op, QURotationOperator):
        return 'RotN'
    if isinstance(op, DiagonalOperator):
        return 'Dv' if op.in_structure() == S(2) else 'Dq'
    if isinstance(op, BlockRowOperator):
        return 'BR'
    if isinstance(op, BlockDiagonalOperator):
        return 'BD'
    if isinstance(op, BlockColumnOperator):
        return 'BC'
    if isinstance(op, AdditionOperator):
        return 'SUM'
    return 'NEW:' + type(op).__name__


def real_pair(l, r):
    for rule in REAL_REGISTRY:
        try:
            rule.check(l, r)
            out = rule.apply(l, r)
        except R.NoReduction:
            continue
        return [classify(o) for o in out], type(rule).__name__
    return None


def build_table():
    table, fired = {}, {}
    for a in NAMES:
        for b in NAMES:
            if CAT[a].in_structure() != CAT[b].out_structure():
                continue
            res = real_pair(CAT[a], CAT[b])
            if res is not None:
                table[(a, b)] = res[0]
                fired[(a, b)] = res[1]
    return table, fired


TABLE_N, FIRED = build_table()
# documented patterns that must be detected on the bare pair (left, right) -> expected result kinds
DOCUMENTED = {
    ('AI', 'A'): [], ('A', 'AI'): [], ('Rot', 'RotF'): ['RotN'], ('Rot', 'RotT'): None, ('RotT', 'Rot'): None, ('Rot', 'RotFT'): ['RotN'],
    ('RotT', 'RotFT'): ['RotN'], ('Rot', 'Hwp'): ['Hwp', 'RotT'], ('RotT', 'Hwp'): ['Hwp', 'Rot'], ('Pol', 'Hwp'): ['Pol'],
    ('BR', 'BD'): ['BR'], ('BD', 'BC'): ['BC'], ('BD', 'BD'): ['BD'], ('BR', 'BC'): ['SUM'],
    ('U', 'UT'): [], ('U2', 'U2T'): [], ('Pk', 'PkT'): [], ('PT', 'P'): ['Dv'], ('RsT', 'Rs'): [], ('Rs', 'RsT'): [], ('Mv', 'MvI'): [], ('MvI', 'Mv'): [],
}
# pairs that must NOT be rewritten
MUST_NOT = [('P', 'PT'), ('UT', 'U'), ('Dv', 'A'), ('W', 'A'), ('Pol', 'Rot')]

STRUCT = {n: (str(o.in_structure()), str(o.out_structure())) for n, o in CAT.items()}
SID = {}
for n in NAMES:
    for s in STRUCT[n]:
        SID.setdefault(s, len(SID))
NS = len(SID)
IN = [SID[STRUCT[n][0]] for n in NAMES]
OUT = [SID[STRUCT[n][1]] for n in NAMES]
SIZES = {}
for o in CAT.values():
    SIZES[SID[str(o.in_structure())]] = o.in_size()
    SIZES[SID[str(o.out_structure())]] = o.out_size()
STRUCT_OF = {}
for o in CAT.values():
    STRUCT_OF[SID[str(o.in_structure())]] = o.in_structure()
    STRUCT_OF[SID[str(o.out_structure())]] = o.out_structure()
# codes: 0..NK-1 catalogue kinds; NK+sid = scalar operator on structure sid; NK+NS+sid = identity on structure sid
HOMO, IDEN, SUMK = -2, -3, -4
TABLE = {}
for (a, b), res in TABLE_N.items():
    TABLE[(NAMES.index(a), NAMES.index(b))] = [NAMES.index(k) if k in NAMES else (SUMK if k == 'SUM' else -9) for k in res]


def code_in(c):
    if c < NK:
        return IN[c]
    return (c - NK) % NS


def code_out(c):
    if c < NK:
        return OUT[c]
    return (c - NK) % NS


def compatible(codes):
    return all(code_in(a) == code_out(b) for a, b in zip(codes, codes[1:]))


# ---- stub operands for the real driver ------------------------------------------------------------
class Op:
    def __init__(self, kind, sin, sout, value=1):
        self.kind, self.sin, self.sout, self.value = kind, sin, sout, value

    def in_structure(self):
        return self.sin

    def out_structure(self):
        return self.sout

    def in_size(self):
        return SIZES[self.sin]

    def out_size(self):
        return SIZES[self.sout]


class H(Op):
    def __init__(self, value, structure):
        Op.__init__(self, HOMO, structure, structure, value)


class I(Op):
    def __init__(self, structure):
        Op.__init__(self, IDEN, structure, structure)


class _jnp:
    array = staticmethod(lambda v: v)


class StubRule:
    """One of three stub rules that partition the table, so the driver's try/except/continue/else logic is exercised."""

    def __init__(self, k):
        self.k = k

    def check(self, l, r):
        key = (l.kind, r.kind)
        if key not in TABLE or (key[0] + 2 * key[1]) % 3 != self.k:
            raise R.NoReduction

    def apply(self, l, r):
        out = []
        for k in TABLE[(l.kind, r.kind)]:
            if k == SUMK:
                out.append(Op(SUMK, l.sout if False else r.sin, l.sout))
            else:
                out.append(Op(k, IN[k], OUT[k]))
        return out


def install():
    R.HomothetyOperator = H
    R.IdentityOperator = I
    R.jnp = _jnp
    R.BINARY_RULE_REGISTRY = [StubRule(0), StubRule(1), StubRule(2)]


def uninstall():
    import jax.numpy as jnp_
    R.HomothetyOperator = REAL_H
    R.IdentityOperator = REAL_I
    R.jnp = jnp_
    R.BINARY_RULE_REGISTRY = _REG


_REG = R.BINARY_RULE_REGISTRY


def make_ops(codes, values):
    ops = []
    for c, v in zip(codes, values):
        if c < NK:
            ops.append(Op(c, IN[c], OUT[c]))
        elif c < NK + NS:
            ops.append(H(v, c - NK))
        else:
            ops.append(I(c - NK - NS))
    return ops


def normal_form_ok(in_ops_codes, values, out):
    """The documented normal form, on the stub result ``out`` of the real driver."""
    ks = [o.kind for o in out]
    if len(out) > 1 and IDEN in ks:
        return False
    if len(out) == 1 and ks[0] == IDEN and len(in_ops_codes) == 0:
        return False
    if ks.count(HOMO) > 1:
        return False
    for a, b in zip(ks, ks[1:]):
        if (a, b) in TABLE:
            return False
    n_in = sum(1 for c in in_ops_codes if NK <= c < NK + NS)
    if HOMO in ks:
        prod = 1
        for c, v in zip(in_ops_codes, values):
            if NK <= c < NK + NS:
                prod = prod * v
        h = out[ks.index(HOMO)]
        if h.value != prod:
            return False
        if len(out) > 1:
            osz, isz = out[0].out_size(), out[-1].in_size()
            at_left, at_right = ks[0] == HOMO, ks[-1] == HOMO
            if not ((at_left and osz <= isz) or (at_right and isz <= osz)):
                return False
    elif n_in > 0:
        # scalar factors may only disappear if ... they never do: a scalar value must be kept
        return False
    return True


def drive(codes, values):
    install()
    try:
        ops = make_ops(codes, values)
        out = R.AlgebraicReductionRule().apply(list(ops))
    finally:
        uninstall()
    return out


def fixpoint_impl(codes, values):
    if len(values) < len(codes):
        values = list(values) + [2] * (len(codes) - len(values))
    out = drive(codes, values)
    return normal_form_ok(codes, values, out)
