"""Exact arithmetic in the cyclotomic field Q(zeta_M)[atoms] for the FFT model.

An element is a vector of phi(M) polynomials (power basis 1, z, ..., z^(phi-1), z = zeta_M =
exp(2 i pi / M)).  M is a multiple of 4 so that i = z^(M/4) is available.  The DFT of length N | M
uses the exact root z^(M/N); no floating-point twiddle factor ever appears.
"""
from fractions import Fraction

import numpy as np

from .poly import Poly, lift


def _polydiv_int(num, den):
    num = list(num)
    out = [0] * (len(num) - len(den) + 1)
    for i in range(len(out) - 1, -1, -1):
        q = num[i + len(den) - 1] // den[-1]
        out[i] = q
        for j, d in enumerate(den):
            num[i + j] -= q * d
    assert not any(num), 'inexact cyclotomic division'
    return out


_cyclo = {}


def cyclotomic(n):
    if n in _cyclo:
        return _cyclo[n]
    p = [-1] + [0] * (n - 1) + [1]
    for d in range(1, n):
        if n % d == 0:
            p = _polydiv_int(p, cyclotomic(d))
    _cyclo[n] = p
    return p


_fields = {}


class Field:
    def __init__(self, M):
        assert M % 4 == 0
        self.M = M
        phi = cyclotomic(M)
        self.deg = len(phi) - 1
        self.pow = []
        cur = [1] + [0] * (self.deg - 1)
        for _ in range(M):
            self.pow.append(tuple(cur))
            carry = cur[-1]
            cur = [0] + cur[:-1]
            if carry:
                for k in range(self.deg):
                    cur[k] -= carry * phi[k]

    @staticmethod
    def get(M):
        if M not in _fields:
            _fields[M] = Field(M)
        return _fields[M]

    def unit(self, e):
        return Cyc(self, [Poly.const(c) for c in self.pow[e % self.M]])

    @property
    def I(self):
        return self.unit(self.M // 4)


class Cyc:
    __array_priority__ = 2000
    __slots__ = ('F', 'c')

    def __init__(self, F, c):
        self.F = F
        self.c = list(c)

    @staticmethod
    def of(F, x):
        if isinstance(x, Cyc):
            assert x.F is F
            return x
        p = lift(x)
        assert p is not NotImplemented, type(x)
        return Cyc(F, [p] + [Poly() for _ in range(F.deg - 1)])

    def __add__(self, o):
        o = Cyc.of(self.F, o)
        return Cyc(self.F, [a + b for a, b in zip(self.c, o.c)])

    __radd__ = __add__

    def __neg__(self):
        return Cyc(self.F, [-a for a in self.c])

    def __sub__(self, o):
        return self + (-Cyc.of(self.F, o))

    def __rsub__(self, o):
        return Cyc.of(self.F, o) - self

    def __mul__(self, o):
        if not isinstance(o, Cyc):
            p = lift(o)
            return Cyc(self.F, [a * p for a in self.c])
        F = self.F
        out = [Poly() for _ in range(F.deg)]
        for i, a in enumerate(self.c):
            if not a.t:
                continue
            for j, b in enumerate(o.c):
                if not b.t:
                    continue
                ab = a * b
                for k, coef in enumerate(F.pow[(i + j) % F.M]):
                    if coef:
                        out[k] = out[k] + ab * coef
        return Cyc(F, out)

    __rmul__ = __mul__

    def mul_unit(self, e):
        F = self.F
        out = [Poly() for _ in range(F.deg)]
        for i, a in enumerate(self.c):
            if not a.t:
                continue
            for k, coef in enumerate(F.pow[(i + e) % F.M]):
                if coef:
                    out[k] = out[k] + a * coef
        return Cyc(F, out)

    def conj(self):
        F = self.F
        out = [Poly() for _ in range(F.deg)]
        for i, a in enumerate(self.c):
            if not a.t:
                continue
            for k, coef in enumerate(F.pow[(-i) % F.M]):
                if coef:
                    out[k] = out[k] + a * coef
        return Cyc(F, out)

    def real(self):
        return (self + self.conj()) * Fraction(1, 2)

    def imag(self):
        # (z - conj z) / (2i) = -i (z - conj z) / 2
        d = (self - self.conj()) * Fraction(1, 2)
        return d.mul_unit(-(self.F.M // 4))

    def is_rational(self):
        return all(not a.t for a in self.c[1:])

    def __eq__(self, o):
        if not isinstance(o, Cyc):
            o = Cyc.of(self.F, o)
        return all(a == b for a, b in zip(self.c, o.c))

    def __hash__(self):
        return hash(tuple(self.c))

    def __repr__(self):
        return 'Cyc(' + ' | '.join(map(repr, self.c)) + ')'


def complex_to_cyc(F, z):
    """A concrete complex constant a+ib with exactly representable parts."""
    from .poly import to_frac
    re, im = to_frac(z.real), to_frac(z.imag)
    return Cyc.of(F, re) + F.I * im


def dft_last_axis(F, arr, n, inverse):
    """arr: object array (..., n) of Poly/Cyc -> exact (inverse) DFT along the last axis."""
    assert F.M % n == 0
    step = F.M // n
    out = np.empty(arr.shape, dtype=object)
    for idx in np.ndindex(*arr.shape[:-1]):
        row = [Cyc.of(F, v) for v in arr[idx]]
        for k in range(n):
            acc = Cyc.of(F, 0)
            for j, xj in enumerate(row):
                e = (j * k * step) % F.M
                acc = acc + xj.mul_unit(e if inverse else -e)
            out[idx + (k,)] = acc * Fraction(1, n) if inverse else acc
    return out
