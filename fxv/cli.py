import importlib
import sys

import fxv.env  # noqa: F401  (configures jax, puts /repo/src first)
from fxv import harness


def main():
    import os
    if os.environ.get('VERIF_DEBUG_DUMP'):
        import faulthandler
        faulthandler.dump_traceback_later(int(os.environ['VERIF_DEBUG_DUMP']), repeat=True)
    if len(sys.argv) < 2:
        print('usage: check <ID> [--tier quick|thorough] [--replay FILE]')
        return 2
    cid = sys.argv[1].upper()
    mod = importlib.import_module(f'fxv.checks.{cid.lower()}')
    return harness.run_check(mod, sys.argv[2:])


if __name__ == '__main__':
    sys.exit(main())
