"""Catalogue of leaf operators and the typed expression grammar shared by several checks.

An expression is a nested tuple (so that case keys are literal_eval-able and replayable):

    ('leaf', name, k)          k-th instance of catalogue entry ``name`` (same (name, k) => same object,
                               so identity-based rules and construction shortcuts fire as for a user)
    ('T', e) ('I', e) ('neg', e) ('pos', e) ('red', e)
    ('mulk', e, j) ('kmul', e, j) ('divk', e, j)     scalar j-th symbolic coefficient
    ('@', e1, e2) ('+', e1, e2) ('-', e1, e2)
    ('comp', [e...])           CompositionOperator([...]) built directly (no construction shortcut)
    ('row'|'col'|'diag', container, [e...])   container in 'list','tuple','dict','nest'
"""
from __future__ import annotations

import jax
import jax.numpy as jnp
import numpy as np

from furax._base.axes import MoveAxisOperator, RavelOperator, ReshapeOperator
from furax._base.blocks import BlockColumnOperator, BlockDiagonalOperator, BlockRowOperator
from furax._base.core import (AdditionOperator, CompositionOperator, HomothetyOperator, IdentityOperator,
                              InverseOperator)
from furax._base.dense import DenseBlockDiagonalOperator
from furax._base.diagonal import BroadcastDiagonalOperator, DiagonalOperator
from furax._base.indices import IndexOperator
from furax._base.linear import PackOperator
from furax.landscapes import StokesIPyTree, StokesIQUPyTree, StokesIQUVPyTree, StokesQUPyTree
from furax.operators.hwp import HWPOperator
from furax.operators.polarizers import LinearPolarizerOperator
from furax.operators.qu_rotations import QURotationOperator
from furax.operators.toeplitz import SymmetricBandToeplitzOperator

from .common import _DEFAULT, S, f64

# concrete integer / Boolean structure parameters: created OUTSIDE any trace, as real jax Arrays
IDX = jnp.array([0, 2, 2, -1])
UIDX = jnp.array([2, 0])
IDX2 = jnp.array([[0, 1], [1, -1]])
IDX3 = jnp.array([1, 1, 0])
PERM = jnp.array([2, 0, 1])
REP3 = jnp.array([0, 0, 1])
MASK = jnp.array([True, False, True])
M2 = jnp.array([True, False])
SPD = jnp.array([[2., 1, 0], [1, 2, 0], [0, 0, 1]])
SPD2 = jnp.array([[1., 0, 0], [0, 2, 1], [0, 1, 1]])
NSYM = jnp.array([[2., 1, 0], [0, 1, 1], [0, 0, 1]])   # invertible, not symmetric

def iqu_():
    return StokesIQUPyTree.structure_for((2,), _DEFAULT['dtype'])


def stokes_(kind):
    from furax.landscapes import StokesPyTree
    return StokesPyTree.class_for(kind).structure_for((2,), _DEFAULT['dtype'])


def other_stokes_programs(fam):
    """Programs over the IQUV / QU families: leaves, (double) transposes, inverses of rotations, short chains and their transposes."""
    L = lambda n, i=0: ('leaf', n, i)  # noqa: E731
    base = [L(n) for n in FAM[fam]]
    out = list(base) + [('T', b) for b in base] + [('T', ('T', b)) for b in base] + [('I', L('R')), ('I', L('Rs')), ('I', L('H'))]
    chains = [('@', L('R'), L('H')), ('@', ('T', L('R')), L('H')), ('@', L('R'), ('T', L('R2', 1))), ('@', ('T', L('R')), ('T', L('R2', 1))),
              ('@', L('Pol'), L('R')), ('@', L('Pol'), L('H')), ('@', L('Dq'), ('T', L('R'))), ('comp', (('T', L('R')), L('H'), L('R'))),
              ('+', L('R'), ('T', L('R2', 1))), ('@', ('T', L('Pol')), L('Pol'))]
    out += chains + [('T', c) for c in chains] + [('red', c) for c in chains] + [('T', ('red', c)) for c in chains[:4]]
    return out


def tree_():
    return {'a': S(3), 'b': [S(2, 3), S(3)]}


def spd_(m):
    return m.astype(_DEFAULT['dtype'])


def dense(b, st, sub='ij,j->i'):
    return DenseBlockDiagonalOperator(b, st, sub)


# name -> (param shapes, constructor, flags)
# flags: 'pos' = all parameters assumed > 0 (so that a lazy inverse of it is well defined),
#        'nz' = parameters assumed != 0
FAM = {
    'vec': {
        'I3': ((), lambda: IdentityOperator(S(3)), ''),
        'k': (((),), lambda k: HomothetyOperator(k, S(3)), 'nz'),
        'k2': (((),), lambda k: HomothetyOperator(k, S(3)), 'nz'),
        'D': (((3,),), lambda d: DiagonalOperator(d, in_structure=S(3)), ''),
        'Dp': (((3,),), lambda d: DiagonalOperator(d, in_structure=S(3)), 'pos'),
        'A': (((3, 3),), lambda b: dense(b, S(3)), ''),
        'B': (((3, 3),), lambda b: dense(b, S(3)), ''),
        'W': (((2, 3),), lambda b: dense(b, S(3)), ''),
        'V': (((3, 2),), lambda b: dense(b, S(2)), ''),
        'P': ((), lambda: IndexOperator(IDX, in_structure=S(3)), ''),
        'U': ((), lambda: IndexOperator(UIDX, in_structure=S(3), unique_indices=True), ''),
        'Pa': ((), lambda: IndexOperator(jnp.array([2, -1, 0, -3]), in_structure=S(3)), ''),
        'Mk': ((), lambda: IndexOperator(MASK, in_structure=S(3), out_structure=S(2)), ''),
        'Sl': ((), lambda: IndexOperator(slice(0, 2), in_structure=S(3)), ''),
        # gathers that keep the structure (permutation, reversal, repetition): not the identity although in == out structure
        'Pp': ((), lambda: IndexOperator(PERM, in_structure=S(3)), ''),
        'Pr': ((), lambda: IndexOperator(slice(None, None, -1), in_structure=S(3)), ''),
        'Pg': ((), lambda: IndexOperator(REP3, in_structure=S(3)), ''),
        'Rs': ((), lambda: ReshapeOperator((3, 1), in_structure=S(3)), ''),
        'Rs0': ((), lambda: ReshapeOperator((3,), in_structure=S(3)), ''),
        'Spd': ((), lambda: dense(spd_(SPD), S(3)), ''),
        'Spd2': ((), lambda: dense(spd_(SPD2), S(3)), ''),
        'Nsym': ((), lambda: dense(spd_(NSYM), S(3)), ''),
        'Tz': (((2,),), lambda h: SymmetricBandToeplitzOperator(h, S(3), method='direct'), ''),
        'Bd': (((2, 3),), lambda d: BroadcastDiagonalOperator(d, axis_destination=-1, in_structure=S(3)), ''),
    },
    'mat': {
        'I': ((), lambda: IdentityOperator(S(2, 3)), ''),
        'k': (((),), lambda k: HomothetyOperator(k, S(2, 3)), 'nz'),
        'D0': (((2,),), lambda d: DiagonalOperator(d, axis_destination=0, in_structure=S(2, 3)), ''),
        'D1': (((3,),), lambda d: DiagonalOperator(d, in_structure=S(2, 3)), ''),
        'D2': (((2, 3),), lambda d: DiagonalOperator(d, axis_destination=(0, 1), in_structure=S(2, 3)), ''),
        'Mv': ((), lambda: MoveAxisOperator(0, 1, in_structure=S(2, 3)), ''),
        'MvI': ((), lambda: MoveAxisOperator(1, 0, in_structure=S(3, 2)), ''),
        'Mn': ((), lambda: MoveAxisOperator(-1, 0, in_structure=S(2, 3)), ''),
        'M3': ((), lambda: MoveAxisOperator(0, 2, in_structure=S(2, 3, 2)), ''),
        'M3b': ((), lambda: MoveAxisOperator((0, 1), (2, 0), in_structure=S(3, 2, 2)), ''),
        'M3c': ((), lambda: MoveAxisOperator(0, 2, in_structure=S(3, 2, 2)), ''),
        'M3d': ((), lambda: MoveAxisOperator((2, 0), (1, 0), in_structure=S(2, 2, 3)), ''),
        'Rv3': ((), lambda: RavelOperator(1, 2, in_structure=S(2, 3, 2)), ''),
        'Rv': ((), lambda: RavelOperator(in_structure=S(2, 3)), ''),
        'Rs': ((), lambda: ReshapeOperator((3, -1), in_structure=S(2, 3)), ''),
        'Rid': ((), lambda: ReshapeOperator((2, 3), in_structure=S(2, 3)), ''),
        'Pe': ((), lambda: IndexOperator((..., IDX), in_structure=S(2, 3)), ''),
        'P0': ((), lambda: IndexOperator(IDX3, in_structure=S(2, 3)), ''),
        'P2': ((), lambda: IndexOperator((slice(None), IDX2), in_structure=S(2, 3)), ''),
        'Pn': ((), lambda: IndexOperator((slice(None), slice(None)), in_structure=S(2, 3)), ''),
        'Pc': ((), lambda: IndexOperator((..., PERM), in_structure=S(2, 3)), ''),
        # an ellipsis that stands for NO axis: the index array addresses axis -2 of a rank-2 leaf, len(indices) = 3
        'Pes': ((), lambda: IndexOperator((..., IDX3, slice(None)), in_structure=S(2, 3)), ''),
        # packing along the leading axis of a leaf that has more axes than the mask
        'Pk': ((), lambda: PackOperator(M2, S(2, 3)), ''),
        'E': (((3, 3),), lambda b: dense(b, S(2, 3), 'ij,kj->ki'), ''),
        'E2': (((2, 2),), lambda b: dense(b, S(2, 3), 'ij,j...->i...'), ''),
        'Tz': (((2, 2),), lambda h: SymmetricBandToeplitzOperator(h, S(2, 3), method='dense'), ''),
        'To': (((2,),), lambda h: SymmetricBandToeplitzOperator(h, S(2, 3), method='overlap_save', fft_size=4), ''),
        'To3': (((2,),), lambda h: SymmetricBandToeplitzOperator(h, S(2, 3), method='overlap_save', fft_size=3), ''),
        'Tf': (((2, 2),), lambda h: SymmetricBandToeplitzOperator(h, S(2, 3), method='fft'), ''),
    },
    'stokes': {
        'R': (((2,),), lambda a: QURotationOperator(a, iqu_()), ''),
        'R2': (((2,),), lambda a: QURotationOperator(a, iqu_()), ''),
        'Rs': (((),), lambda a: QURotationOperator(a, iqu_()), ''),
        'H': ((), lambda: HWPOperator(iqu_()), ''),
        'Pol': ((), lambda: LinearPolarizerOperator(iqu_()), ''),
        'Pk': ((), lambda: PackOperator(M2, iqu_()), ''),
        'k': (((),), lambda k: HomothetyOperator(k, iqu_()), 'nz'),
        'Dq': (((2,),), lambda d: DiagonalOperator(d, in_structure=iqu_()), ''),
        'Ix': ((), lambda: IndexOperator(IDX3, in_structure=iqu_()), ''),
        'Id': ((), lambda: IdentityOperator(iqu_()), ''),
    },
    # the other Stokes kinds (the default family above is IQU): polarimetry operators only
    'iquv': {
        'R': (((2,),), lambda a: QURotationOperator(a, stokes_('IQUV')), ''),
        'R2': (((2,),), lambda a: QURotationOperator(a, stokes_('IQUV')), ''),
        'Rs': (((),), lambda a: QURotationOperator(a, stokes_('IQUV')), ''),
        'H': ((), lambda: HWPOperator(stokes_('IQUV')), ''),
        'Pol': ((), lambda: LinearPolarizerOperator(stokes_('IQUV')), ''),
        'Dq': (((2,),), lambda d: DiagonalOperator(d, in_structure=stokes_('IQUV')), ''),
        'Pk': ((), lambda: PackOperator(M2, stokes_('IQUV')), ''),
    },
    'qu': {
        'R': (((2,),), lambda a: QURotationOperator(a, stokes_('QU')), ''),
        'R2': (((2,),), lambda a: QURotationOperator(a, stokes_('QU')), ''),
        'Rs': (((),), lambda a: QURotationOperator(a, stokes_('QU')), ''),
        'H': ((), lambda: HWPOperator(stokes_('QU')), ''),
        'Pol': ((), lambda: LinearPolarizerOperator(stokes_('QU')), ''),
        'Dq': (((2,),), lambda d: DiagonalOperator(d, in_structure=stokes_('QU')), ''),
    },
    'tree': {
        'I': ((), lambda: IdentityOperator(tree_()), ''),
        'k': (((),), lambda k: HomothetyOperator(k, tree_()), 'nz'),
        'D': (((3,),), lambda d: DiagonalOperator(d, in_structure=tree_()), ''),
        'Dx': (((3,),), lambda d: DiagonalOperator(d, axis_destination=0, in_structure={'a': S(3), 'b': S(3, 2)}), ''),
        'Rv': ((), lambda: RavelOperator(in_structure=tree_()), ''),
        'Rl': ((), lambda: RavelOperator(-1, -1, in_structure=tree_()), ''),
        'Ix': ((), lambda: IndexOperator((..., UIDX), in_structure=tree_(), unique_indices=True), ''),
        'Ir': ((), lambda: IndexOperator((..., IDX), in_structure=tree_()), ''),
        'E': (((2, 3),), lambda b: dense(b, tree_(), 'ij,...j->...i'), ''),
        'Et': (((3, 3),), lambda b: dense(b, tree_(), 'ij,...j->...i'), ''),
    },
}


def make_container(kind, ops):
    if kind == 'list':
        return list(ops)
    if kind == 'tuple':
        return tuple(ops)
    if kind == 'dict':
        return {f'b{i}': op for i, op in enumerate(ops)}
    if kind == 'nest':
        return {'u': ops[0], 'v': list(ops[1:])} if len(ops) > 1 else {'u': [ops[0]]}
    if kind == 'single':
        assert len(ops) == 1
        return ops[0]
    if kind == 'udict':
        # a dict whose keys are inserted in NON-sorted order: pytree (sorted-key) order is the reverse of the insertion order
        return {f'k{len(ops) - 1 - i}': op for i, op in enumerate(ops)}
    if kind == 'lnest':
        # nested lists: the first two entries share an inner list
        return [list(ops[:2])] + list(ops[2:]) if len(ops) > 2 else [list(ops)]
    raise ValueError(kind)


BLOCKS = {'row': BlockRowOperator, 'col': BlockColumnOperator, 'diag': BlockDiagonalOperator}

# concrete scalar kinds (dyadic, so that furax's eager float arithmetic on them is exact)
CONSTS = [2, 0.5, -1, np.float64(4.0), np.float32(2.0), np.array(0.25), jnp.array(2.0), np.int32(3), 1]
UNARY = ('T', 'I', 'neg', 'pos', 'red', 'lazyI')
CUNARY = ('cmul', 'rcmul', 'cdiv')


class Builder:
    """Builds an expression from parameter arrays (traced or concrete), in a fixed traversal order."""

    def __init__(self, fam):
        self.fam = fam
        self.leaves = FAM[fam]

    # ---- parameter layout -------------------------------------------------------------------
    def layout(self, e):
        """[(kind, shape, flags, label)] in the order ``build`` consumes parameters."""
        out, seen = [], set()
        self._layout(e, out, seen)
        return out

    def _layout(self, e, out, seen):
        tag = e[0]
        if tag == 'leaf':
            if e in seen:
                return
            seen.add(e)
            shapes, _, flags = self.leaves[e[1]]
            for s in shapes:
                out.append(('leaf', tuple(s), flags, f'{e[1]}#{e[2]}'))
        elif tag in UNARY or tag in CUNARY:
            self._layout(e[1], out, seen)
        elif tag in ('mulk', 'kmul', 'divk'):
            self._layout(e[1], out, seen)
            key = ('scalar', e[2])
            if key not in seen:
                seen.add(key)
                out.append(('scalar', (), 'nz' if tag == 'divk' else '', f'c{e[2]}'))
        elif tag in ('@', '+', '-'):
            for c in e[1:]:
                self._layout(c, out, seen)
        elif tag in ('comp', 'sum'):
            for c in e[1]:
                self._layout(c, out, seen)
        elif tag in BLOCKS:
            for c in e[2]:
                self._layout(c, out, seen)
        else:
            raise ValueError(tag)

    def structs(self, e):
        return [S(*shape) for _, shape, _, _ in self.layout(e)]

    # ---- construction -----------------------------------------------------------------------
    def build_part(self, e, params, sub, memo=None):
        """Assign parameters following the layout of ``e`` but construct only its sub-expression ``sub``."""
        return self.build(e, params, sub=sub)

    def build(self, e, params, sub=None):
        """params: list of arrays in ``layout`` order."""
        lay = self.layout(e)
        assert len(lay) == len(params), (len(lay), len(params))
        table = {}
        it = iter(params)
        seen = set()
        # assign parameters to leaves / scalars in layout order
        def assign(e):
            tag = e[0]
            if tag == 'leaf':
                if e in seen:
                    return
                seen.add(e)
                table[e] = [next(it) for _ in self.leaves[e[1]][0]]
            elif tag in UNARY or tag in CUNARY:
                assign(e[1])
            elif tag in ('mulk', 'kmul', 'divk'):
                assign(e[1])
                key = ('scalar', e[2])
                if key not in seen:
                    seen.add(key)
                    table[key] = next(it)
            elif tag in ('@', '+', '-'):
                for c in e[1:]:
                    assign(c)
            elif tag in ('comp', 'sum'):
                for c in e[1]:
                    assign(c)
            else:
                for c in e[2]:
                    assign(c)
        assign(e)
        memo = {}
        return self._build(e if sub is None else sub, table, memo)

    def _build(self, e, table, memo):
        tag = e[0]
        if tag == 'leaf':
            if e not in memo:
                memo[e] = self.leaves[e[1]][1](*table[e])
            return memo[e]
        if e in memo:
            # identical sub-expressions denote the same Python object (as `P.T @ P` for a user)
            return memo[e]
        b = lambda c: self._build(c, table, memo)  # noqa: E731
        if tag == 'T':
            r = b(e[1]).T
        elif tag == 'I':
            r = b(e[1]).I
        elif tag == 'lazyI':
            r = InverseOperator(b(e[1]))
        elif tag == 'neg':
            r = -b(e[1])
        elif tag == 'pos':
            r = +b(e[1])
        elif tag == 'red':
            r = b(e[1]).reduce()
        elif tag == 'cmul':
            r = b(e[1]) * CONSTS[e[2]]
        elif tag == 'rcmul':
            r = CONSTS[e[2]] * b(e[1])
        elif tag == 'cdiv':
            r = b(e[1]) / CONSTS[e[2]]
        elif tag == 'mulk':
            r = b(e[1]) * table[('scalar', e[2])]
        elif tag == 'kmul':
            r = table[('scalar', e[2])] * b(e[1])
        elif tag == 'divk':
            r = b(e[1]) / table[('scalar', e[2])]
        elif tag == '@':
            r = b(e[1])
            for c in e[2:]:
                r = r @ b(c)
        elif tag == '+':
            r = b(e[1]) + b(e[2])
        elif tag == '-':
            r = b(e[1]) - b(e[2])
        elif tag == 'comp':
            ops = [b(c) for c in e[1]]
            # CompositionOperator([...]) itself validates nothing: ill-typed chains are not programs
            for lo, ro in zip(ops[:-1], ops[1:]):
                if lo.in_structure() != ro.out_structure():
                    raise ValueError('ill-typed direct composition')
            r = CompositionOperator(ops)
        elif tag == 'sum':
            ops = [b(c) for c in e[1]]
            for o in ops[1:]:
                if o.in_structure() != ops[0].in_structure() or o.out_structure() != ops[0].out_structure():
                    raise ValueError('ill-typed direct sum')
            r = AdditionOperator(ops)
        elif tag in BLOCKS:
            r = BLOCKS[tag](make_container(e[1], [b(c) for c in e[2]]))
        else:
            raise ValueError(tag)
        memo[e] = r
        return r

    # ---- assumptions ------------------------------------------------------------------------
    def assumptions(self, e):
        """[(Poly, op, 0)] side conditions implied by leaf flags (documented preconditions)."""
        from . import interp as E
        from .poly import Poly
        out = []
        for i, (kind, shape, flags, _) in enumerate(self.layout(e)):
            if not flags:
                continue
            arr = E.sym_array(f'p{i}', shape)
            for a in arr.reshape(-1):
                if 'pos' in flags:
                    out.append((a, 'gt', Poly()))
                elif 'nz' in flags:
                    out.append((a, 'ne', Poly()))
        return out


def container_get(kind, cont, i, n):
    """The i-th entry of a container built by make_container(kind, n items)."""
    if kind in ('list', 'tuple'):
        return cont[i]
    if kind == 'dict':
        return cont[f'b{i}']
    if kind == 'nest':
        if n == 1:
            return cont['u'][0]
        return cont['u'] if i == 0 else cont['v'][i - 1]
    if kind == 'single':
        return cont
    if kind == 'udict':
        return cont[f'k{n - 1 - i}']
    if kind == 'lnest':
        return cont[0][i] if (i < 2 or n <= 2) else cont[i - 1]
    raise ValueError(kind)


def leaf_names(e, acc=None):
    acc = [] if acc is None else acc
    tag = e[0]
    if tag == 'leaf':
        acc.append(e[1])
    elif tag in ('T', 'I', 'neg', 'pos', 'red', 'lazyI', 'mulk', 'kmul', 'divk', 'cmul', 'rcmul', 'cdiv'):
        leaf_names(e[1], acc)
    elif tag in ('@', '+', '-'):
        for c in e[1:]:
            leaf_names(c, acc)
    elif tag in ('comp', 'sum'):
        for c in e[1]:
            leaf_names(c, acc)
    else:
        for c in e[2]:
            leaf_names(c, acc)
    return acc


def has_tag(e, tags):
    if e[0] in tags:
        return True
    tag = e[0]
    if tag == 'leaf':
        return False
    if tag in ('T', 'I', 'neg', 'pos', 'red', 'lazyI', 'mulk', 'kmul', 'divk', 'cmul', 'rcmul', 'cdiv'):
        return has_tag(e[1], tags)
    if tag in ('@', '+', '-'):
        return any(has_tag(c, tags) for c in e[1:])
    if tag in ('comp', 'sum'):
        return any(has_tag(c, tags) for c in e[1])
    return any(has_tag(c, tags) for c in e[2])


def show(e):
    tag = e[0]
    if tag == 'leaf':
        return e[1] + ("'" * e[2])
    if tag == 'T':
        return f'{show(e[1])}.T'
    if tag == 'I':
        return f'{show(e[1])}.I'
    if tag == 'lazyI':
        return f'Inv({show(e[1])})'
    if tag == 'neg':
        return f'-{show(e[1])}'
    if tag == 'pos':
        return f'+{show(e[1])}'
    if tag == 'red':
        return f'red({show(e[1])})'
    if tag == 'cmul':
        return f'({show(e[1])}*{CONSTS[e[2]]!r})'
    if tag == 'rcmul':
        return f'({CONSTS[e[2]]!r}*{show(e[1])})'
    if tag == 'cdiv':
        return f'({show(e[1])}/{CONSTS[e[2]]!r})'
    if tag == 'mulk':
        return f'({show(e[1])}*c{e[2]})'
    if tag == 'kmul':
        return f'(c{e[2]}*{show(e[1])})'
    if tag == 'divk':
        return f'({show(e[1])}/c{e[2]})'
    if tag in ('@', '+', '-'):
        return '(' + f' {tag} '.join(show(c) for c in e[1:]) + ')'
    if tag == 'comp':
        return 'Comp[' + ', '.join(show(c) for c in e[1]) + ']'
    if tag == 'sum':
        return 'Sum[' + ', '.join(show(c) for c in e[1]) + ']'
    return f'{tag}:{e[1]}[' + ', '.join(show(c) for c in e[2]) + ']'
