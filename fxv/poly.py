"""Exact sparse polynomials over Q in named atoms (canonical normal form).

A monomial is a sorted tuple of (atom, exponent); a polynomial is a dict monomial -> Fraction
with no zero coefficients, so two polynomials denote the same element of Q[atoms] iff their
dicts are equal.
"""
from fractions import Fraction
import numbers

import numpy as np


def to_frac(c):
    if isinstance(c, Fraction):
        return c
    if isinstance(c, (bool, np.bool_)):
        return Fraction(int(c))
    if isinstance(c, (int, np.integer)):
        return Fraction(int(c))
    if isinstance(c, (float, np.floating)):
        f = float(c)
        if f != f or f in (float('inf'), float('-inf')):
            raise NonFinite(f)
        return Fraction(f)
    if isinstance(c, (complex, np.complexfloating)):
        if c.imag != 0:
            raise TypeError('complex constant with imaginary part outside a cyclotomic field')
        return to_frac(c.real)
    raise TypeError(type(c))


class NonFinite(ArithmeticError):
    """A NaN/Inf constant reached the exact interpreter."""


def mono_mul(k1, k2):
    if not k1:
        return k2
    if not k2:
        return k1
    d = dict(k1)
    for a, e in k2:
        d[a] = d.get(a, 0) + e
    return tuple(sorted(d.items()))


class Poly:
    __slots__ = ('t',)
    __array_priority__ = 1000

    def __init__(self, t=None):
        self.t = t if t is not None else {}

    @staticmethod
    def const(c):
        c = to_frac(c)
        return Poly({(): c} if c != 0 else {})

    @staticmethod
    def var(name):
        return Poly({((name, 1),): Fraction(1)})

    def is_const(self):
        return all(k == () for k in self.t)

    def const_value(self):
        return self.t.get((), Fraction(0))

    def is_zero(self):
        return not self.t

    def degree(self):
        return max((sum(e for _, e in k) for k in self.t), default=0)

    def __add__(self, o):
        o = lift(o)
        if o is NotImplemented:
            return o
        if not o.t:
            return self
        if not self.t:
            return o
        r = dict(self.t)
        for k, v in o.t.items():
            nv = r.get(k, 0) + v
            if nv == 0:
                r.pop(k, None)
            else:
                r[k] = nv
        return Poly(r)

    __radd__ = __add__

    def __neg__(self):
        return Poly({k: -v for k, v in self.t.items()})

    def __sub__(self, o):
        o = lift(o)
        if o is NotImplemented:
            return o
        return self + (-o)

    def __rsub__(self, o):
        return (-self) + o

    def __mul__(self, o):
        o = lift(o)
        if o is NotImplemented:
            return o
        if not self.t or not o.t:
            return Poly()
        r = {}
        for k1, v1 in self.t.items():
            for k2, v2 in o.t.items():
                k = mono_mul(k1, k2)
                nv = r.get(k, 0) + v1 * v2
                if nv == 0:
                    r.pop(k, None)
                else:
                    r[k] = nv
        return Poly(r)

    __rmul__ = __mul__

    def __pow__(self, n):
        assert isinstance(n, int) and n >= 0
        r = Poly.const(1)
        for _ in range(n):
            r = r * self
        return r

    def __eq__(self, o):
        o = lift(o)
        if o is NotImplemented:
            return False
        return self.t == o.t

    def __ne__(self, o):
        return not self.__eq__(o)

    def __hash__(self):
        return hash(frozenset(self.t.items()))

    def atoms(self):
        return {a for k in self.t for a, _ in k}

    def subs(self, values):
        """Evaluate with a dict atom -> number (missing atoms are an error)."""
        acc = 0
        for k, v in self.t.items():
            term = v
            for a, e in k:
                term = term * values[a] ** e
            acc = acc + term
        return acc

    def __repr__(self):
        if not self.t:
            return '0'
        parts = []
        for k, v in sorted(self.t.items()):
            s = str(v)
            for a, e in k:
                s += f'*{a}' + (f'^{e}' if e > 1 else '')
            parts.append(s)
        return ' + '.join(parts)


def lift(o):
    if isinstance(o, Poly):
        return o
    if isinstance(o, (numbers.Real, np.number, np.bool_, Fraction)):
        return Poly.const(o)
    return NotImplemented
