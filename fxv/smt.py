"""SMT back end: turns interpreter results + side conditions into z3 queries (cvc5 cross-check)."""
from __future__ import annotations

import hashlib
import time
from fractions import Fraction

import z3

from .cyc import Cyc
from .interp import BoolE, Ctx
from .poly import Poly

_CMP = {'ne': lambda a, b: a != b, 'eq': lambda a, b: a == b, 'lt': lambda a, b: a < b,
        'le': lambda a, b: a <= b, 'gt': lambda a, b: a > b, 'ge': lambda a, b: a >= b}


class Result:
    def __init__(self, status, model=None, seconds=0.0, digest='', reason='', smt2=None):
        self.status = status  # 'unsat' | 'sat' | 'unknown'
        self.model = model or {}
        self.seconds = seconds
        self.digest = digest
        self.reason = reason
        self.smt2 = smt2

    def __repr__(self):
        return f'Result({self.status}, {self.seconds:.3f}s, {self.reason})'


class Encoder:
    def __init__(self, ctx: Ctx):
        self.ctx = ctx
        self.vars = {}
        self.ufuncs = {}

    def var(self, a):
        v = self.vars.get(a)
        if v is None:
            v = z3.Int(a) if a in self.ctx.int_atoms else z3.Real(a)
            self.vars[a] = v
        return v

    def term(self, p):
        if isinstance(p, (int, Fraction)):
            return z3.RealVal(str(Fraction(p)))
        if isinstance(p, Cyc):
            raise TypeError('Cyc must be split into components before encoding')
        terms = []
        for k, c in p.t.items():
            fs = []
            for a, e in k:
                x = self.var(a)
                fs.extend([x] * e)
            if c.denominator == 1 and fs and all(x.is_int() for x in fs):
                cv = z3.IntVal(int(c))
            else:
                cv = z3.RealVal(str(c))
            if not fs:
                terms.append(cv)
            elif c == 1:
                terms.append(z3.Product(*fs) if len(fs) > 1 else fs[0])
            else:
                terms.append(z3.Product(cv, *fs))
        if not terms:
            return z3.RealVal(0)
        return z3.Sum(*terms) if len(terms) > 1 else terms[0]

    def boolean(self, b):
        if isinstance(b, bool):
            return z3.BoolVal(b)
        if b.op == 'const':
            return z3.BoolVal(b.args[0])
        if b.op == 'cmp':
            op, x, y = b.args
            return _CMP[op](self.term(x), self.term(y))
        if b.op == 'and':
            return z3.And(self.boolean(b.args[0]), self.boolean(b.args[1]))
        if b.op == 'or':
            return z3.Or(self.boolean(b.args[0]), self.boolean(b.args[1]))
        if b.op == 'not':
            return z3.Not(self.boolean(b.args[0]))
        if b.op == 'beq':
            return self.boolean(b.args[0]) == self.boolean(b.args[1])
        if b.op == 'bne':
            return self.boolean(b.args[0]) != self.boolean(b.args[1])
        raise TypeError(b.op)

    def definitions(self):
        """Definitional constraints of every atom introduced by the interpreter."""
        ctx = self.ctx
        out = []
        for q, den in ctx.divs:
            d = self.term(den)
            out.append(z3.Implies(d != 0, self.term(q) * d == 1))
        for v, c, t, f in ctx.ites:
            out.append(self.term(v) == z3.If(self.boolean(c), self.term(t), self.term(f)))
        for atom in ctx.trig:
            C, S = self.var('C$' + atom), self.var('S$' + atom)
            out.append(C * C + S * S == 1)
        for name, x, mode in ctx.rounds:
            r = self.var(name)
            xt = self.term(x)
            rr = z3.ToReal(r)
            if mode == 'floor':
                out.append(z3.And(rr <= xt, xt < rr + 1))
            elif mode == 'ceil':
                out.append(z3.And(rr - 1 < xt, xt <= rr))
            elif mode == 'trunc':
                out.append(z3.If(xt >= 0, z3.And(rr <= xt, xt < rr + 1), z3.And(rr - 1 < xt, xt <= rr)))
            elif mode == 'half_even':
                half = z3.RealVal('1/2')
                out.append(z3.And(rr - half <= xt, xt <= rr + half))
                out.append(z3.Implies(z3.Or(xt == rr + half, xt == rr - half), r % 2 == 0))
            else:
                raise TypeError(mode)
        for name, fname, args in ctx.ufs:
            key = (fname, len(args))
            if key not in self.ufuncs:
                self.ufuncs[key] = z3.Function('uf_' + fname, *([z3.RealSort()] * (len(args) + 1)))
            ts = [self.term(a) for a in args]
            ts = [z3.ToReal(t) if t.is_int() else t for t in ts]
            out.append(self.var(name) == self.ufuncs[key](*ts))
        for lhs, rhs in ctx.eqs:
            out.append(self.term(lhs) == self.term(rhs))
        return out


def split_pairs(pairs):
    """Expand (L, R) element pairs so that both sides are Poly (Cyc compared component-wise)."""
    out = []
    for a, b in pairs:
        if isinstance(a, BoolE) or isinstance(b, BoolE):
            out.append((a, b))
            continue
        if isinstance(a, Cyc) or isinstance(b, Cyc):
            F = a.F if isinstance(a, Cyc) else b.F
            a, b = Cyc.of(F, a), Cyc.of(F, b)
            out.extend(zip(a.c, b.c))
        else:
            out.append((a, b))
    return out


def _model_value(m, v):
    val = m.eval(v, model_completion=True)
    if z3.is_int_value(val):
        return Fraction(val.as_long())
    if z3.is_rational_value(val):
        return Fraction(val.numerator_as_long(), val.denominator_as_long())
    if z3.is_algebraic_value(val):
        ap = val.approx(30)
        return Fraction(ap.numerator_as_long(), ap.denominator_as_long())
    try:
        return Fraction(str(val))
    except Exception:  # noqa: BLE001
        return None


def solve(ctx: Ctx, goal_pairs=None, assumptions=(), goal=None, timeout_ms=30000, want_smt2=False,
          extra=None):
    """Decide  definitions /\\ assumptions /\\ (\\/ L_i != R_i  or  goal).

    ``assumptions``: list of callables enc -> z3 BoolRef, or (Poly, op, Poly) triples.
    ``goal``: callable enc -> z3 BoolRef to be *satisfied* (the negated property).
    unsat = the property holds for all values; sat = counterexample model.
    """
    enc = Encoder(ctx)
    s = z3.Solver()
    s.set('timeout', int(timeout_ms))
    disj = []
    ndiff = 0
    if goal_pairs is not None:
        for a, b in split_pairs(goal_pairs):
            if isinstance(a, BoolE) or isinstance(b, BoolE):
                ba = a if isinstance(a, BoolE) else BoolE.const(bool(a))
                bb = b if isinstance(b, BoolE) else BoolE.const(bool(b))
                disj.append(enc.boolean(ba) != enc.boolean(bb))
                ndiff += 1
            elif a != b:
                disj.append(enc.term(a) != enc.term(b))
                ndiff += 1
    if goal is not None:
        disj.append(goal(enc))
    if extra is not None:
        disj.extend(extra(enc))
    for d in enc.definitions():
        s.add(d)
    for a in assumptions:
        if callable(a):
            s.add(a(enc))
        else:
            l, op, r = a
            s.add(_CMP[op](enc.term(l), enc.term(r)))
    s.add(z3.Or(*disj) if disj else z3.BoolVal(False))
    t0 = time.time()
    smt2 = s.to_smt2()
    digest = hashlib.sha1(smt2.encode()).hexdigest()[:12]
    r = s.check()
    dt = time.time() - t0
    status = str(r)
    model = {}
    if status == 'sat':
        m = s.model()
        for name, v in enc.vars.items():
            model[name] = _model_value(m, v)
    res = Result(status, model, dt, digest, reason=(s.reason_unknown() if status == 'unknown' else ''),
                 smt2=smt2 if want_smt2 else None)
    res.syntactic_diff = ndiff
    return res


def reachable(ctx: Ctx, assumptions=(), timeout_ms=30000):
    """Vacuity guard: definitions /\\ assumptions must be satisfiable."""
    return solve(ctx, goal=lambda enc: z3.BoolVal(True), assumptions=assumptions, timeout_ms=timeout_ms)


def cvc5_check(smt2_text, timeout_ms=60000):
    """Re-decide an SMT-LIB2 dump with cvc5 (python wheel).  Returns 'sat'/'unsat'/'unknown'."""
    import cvc5
    slv = cvc5.Solver()
    slv.setOption('tlimit-per', str(int(timeout_ms)))
    slv.setLogic('ALL')
    parser = cvc5.InputParser(slv)
    txt = '\n'.join(l for l in smt2_text.splitlines() if not l.startswith('(set-logic'))
    parser.setStringInput(cvc5.InputLanguage.SMT_LIB_2_6, txt, 'q')
    sm = parser.getSymbolManager()
    res = 'unknown'
    while True:
        cmd = parser.nextCommand()
        if cmd.isNull():
            break
        out = str(cmd.invoke(slv, sm)).strip()
        if out in ('sat', 'unsat', 'unknown'):
            res = out
    return res
