"""C05 - declared input/output structures are honest (symbolic dimensions + z3; finite dtype/x64 matrix on the IR)."""
from __future__ import annotations

import math
import random
import zlib

import jax
import jax.numpy as jnp
import numpy as np

from ..catalogue import FAM, Builder, leaf_names, show
from ..common import S, default_dtype, describe_struct, f32, f64, structs_equal
from ..harness import inconclusive, ok, skipped, violation
from ..programs import build_concrete, concrete_params
from .c01 import _tuplify

ID = 'C05'
LEVEL = 'other'
TECHNIQUE = 'JAX symbolic dimensions through the real structure methods + z3 (QF_NIA) on "declared != traced" for all sizes; finite dtype/x64 configuration matrix compared on the IR'
EXPLANATION = ('(a) Operators are constructed with jax.export symbolic dimensions a, b; out_structure(), eval_shape(mv), in_size(), out_size() come '
               'back as dimension polynomials and z3 decides, for ALL a, b >= 1, whether any declared axis length or size can differ from the '
               'traced one (unsat = honest for every size). (b) For every catalogue operator, its transpose, closed-form inverse, reduce() and '
               'seeded composites, the declared pytree/shapes/dtypes/sizes/promoted dtypes are compared with the abstract evaluation of mv in the '
               'configurations {float32, float64} x {x64 on, off}, plus float16, bfloat16 and complex64 data and float64 parameters on float32 structures for the leaf-level programs; (b) is a finite enumeration on the IR and involves no solver.')
FUNCTIONS = ['AbstractLinearOperator.out_structure/in_size/out_size/in_promoted_dtype/out_promoted_dtype', 'square()', 'AdditionOperator/CompositionOperator/_AbstractLazyDualOperator structures',
             'AbstractBlockOperator/BlockRowOperator/BlockColumnOperator structures', 'IndexOperator._out_structure', 'every constructor that accepts symbolic dimensions']
BOUNDS = {'quick': '(a) 27 operator constructions with symbolic dimensions (all sizes >= 1); (b) catalogue leaves, .T, closed-form .I, reduce(), 40 composites per family x 3 dtype/x64 configurations; leaf-level programs + 15 composites also in float16 / bfloat16 / complex64; every diagonal / axis specification of the C11 and C13 families that the constructors accept and every pack operator of the C12 family',
          'thorough': '(b) up to 3 000 composites per family'}
STUBS = []
ASSUMPTIONS = ['operators that reject symbolic dimensions (Reshape with -1, slices/ellipsis on a symbolic axis, Toeplitz signal axis) are covered by (b) only',
               'parameters no wider than the data dtype']
RULE = 'case = symbolic-dimension construction, an accepted constructor specification, or (operator expression, dtype, x64 mode); non-trivial = output structure differs from input structure or is computed by abstract evaluation; distinct keys'
BUDGET = {'quick': 300, 'thorough': 1200}


def _sym_cases():
    from jax import export
    from furax import MoveAxisOperator, RavelOperator, ReshapeOperator
    from furax._base.blocks import BlockColumnOperator, BlockDiagonalOperator, BlockRowOperator
    from furax._base.core import HomothetyOperator, IdentityOperator
    from furax._base.dense import DenseBlockDiagonalOperator
    from furax._base.diagonal import BroadcastDiagonalOperator, DiagonalOperator
    from furax._base.indices import IndexOperator
    from furax.landscapes import StokesIQUPyTree
    from furax.operators.hwp import HWPOperator
    from furax.operators.polarizers import LinearPolarizerOperator
    from furax.operators.qu_rotations import QURotationOperator
    from furax.operators.toeplitz import SymmetricBandToeplitzOperator
    F = jnp.float32
    s = lambda *sh: jax.ShapeDtypeStruct(sh, F)  # noqa: E731
    iqu = lambda *sh: StokesIQUPyTree.structure_for(sh, F)  # noqa: E731
    one = lambda *sh: jnp.ones(sh, F)  # noqa: E731
    return {
        'identity': lambda a, b: IdentityOperator(s(a, b)),
        'homothety_tree': lambda a, b: HomothetyOperator(jnp.array(2., F), {'u': s(a), 'v': s(b, 3)}),
        'diag_last': lambda a, b: DiagonalOperator(one(3), in_structure=s(a, 3)),
        'diag_first': lambda a, b: DiagonalOperator(one(3), axis_destination=0, in_structure=s(3, a)),
        'diag_inverse': lambda a, b: DiagonalOperator(one(3), in_structure=s(a, 3)).I,
        'bdiag': lambda a, b: BroadcastDiagonalOperator(one(2, 3), axis_destination=-1, in_structure=s(a, 1, 3)),
        'bdiag_T': lambda a, b: BroadcastDiagonalOperator(one(2, 3), axis_destination=-1, in_structure=s(a, 1, 3)).T,
        'dense': lambda a, b: DenseBlockDiagonalOperator(one(2, 3), s(3, a), 'ij,j...->i...'),
        'dense_batch': lambda a, b: DenseBlockDiagonalOperator(one(2, 3), s(a, 3), 'ij,kj->ki'),
        'dense_T': lambda a, b: DenseBlockDiagonalOperator(one(2, 3), s(a, 3), 'ij,kj->ki').T,
        'index_axis0': lambda a, b: IndexOperator(jnp.array([0, 2, 2]), in_structure=s(3, a)),
        'index_ellipsis': lambda a, b: IndexOperator((Ellipsis, jnp.array([0, 1])), in_structure=s(a, 3), out_structure=s(a, 2)),
        'index_T': lambda a, b: IndexOperator(jnp.array([0, 2, 2]), in_structure=s(3, a)).T,
        'move': lambda a, b: MoveAxisOperator(0, -1, in_structure=s(a, 3, b)),
        'move_T': lambda a, b: MoveAxisOperator(0, -1, in_structure=s(a, 3, b)).T,
        'ravel': lambda a, b: RavelOperator(in_structure=s(a, b)),
        'ravel_part': lambda a, b: RavelOperator(0, 1, in_structure=s(a, 3, b)),
        'ravel_tree': lambda a, b: RavelOperator(-2, -1, in_structure=[s(a, 2, 3), s(b, a)]),
        'ravel_T': lambda a, b: RavelOperator(0, 1, in_structure=s(a, 3, b)).T,
        'reshape': lambda a, b: ReshapeOperator((a, 6), in_structure=s(a, 2, 3)),
        'toeplitz_dense_batch': lambda a, b: SymmetricBandToeplitzOperator(one(2), s(a, 5), method='dense'),
        'toeplitz_overlap_batch': lambda a, b: SymmetricBandToeplitzOperator(one(2), s(a, 5)),
        'qurot': lambda a, b: QURotationOperator(one(3), iqu(a, 3)),
        'hwp': lambda a, b: HWPOperator(iqu(a, b)),
        'polarizer': lambda a, b: LinearPolarizerOperator(iqu(a, b)),
        'blockcol': lambda a, b: BlockColumnOperator([IdentityOperator(s(a, b)), RavelOperator(in_structure=s(a, b))]),
        'blockrow': lambda a, b: BlockRowOperator([IdentityOperator(s(a)), HomothetyOperator(jnp.array(2., F), s(a))]),
        'blockdiag': lambda a, b: BlockDiagonalOperator({'x': RavelOperator(in_structure=s(a, b)), 'y': MoveAxisOperator(0, 1, in_structure=s(a, b))}),
        'composition': lambda a, b: RavelOperator(in_structure=s(b, a)) @ MoveAxisOperator(0, 1, in_structure=s(a, b)),
        'sum': lambda a, b: IdentityOperator(s(a, b)) + HomothetyOperator(jnp.array(2., F), s(a, b)),
        'reduced_composition': lambda a, b: (RavelOperator(in_structure=s(a, b)).T @ RavelOperator(in_structure=s(a, b)) @ HomothetyOperator(jnp.array(2., F), s(a, b))).reduce(),
    }


def cases(tier, seed):
    from . import c01, c04
    rnd = random.Random(f'c05-{seed}')
    out = [('symdim', n) for n in _sym_cases()]
    for fam in ('vec', 'mat', 'stokes', 'tree'):
        base = [('leaf', n, 0) for n in FAM[fam]]
        progs = list(base) + [('T', b) for b in base] + [('I', ('leaf', n, 0)) for n in c04.CLOSED_INV[fam]] + [('red', b) for b in base]
        comp = [e for e in c01.gen_programs(fam, 'quick', seed) if not c04._has_lazy(fam, e)]
        rnd.shuffle(comp)
        comp = comp[: (40 if tier == 'quick' else 0)] if tier == 'quick' else [e for e in c01.gen_programs(fam, 'thorough', seed) if not c04._has_lazy(fam, e)][:3000]
        progs += comp + [('red', e) for e in comp[:20]]
        for e in progs:
            for cfg in (('f32', True), ('f32', False), ('f64', True)):
                out.append(('struct', fam, e, cfg))
        # half precision (every operator) and complex data (every operator documented for it: the Toeplitz operator is typed Float)
        small = list(base) + [('T', b) for b in base] + [('I', ('leaf', n, 0)) for n in c04.CLOSED_INV[fam]] + [('red', b) for b in base] + comp[:15]
        # parameter arrays WIDER than the declared structure (float64 values on a float32 structure, x64 on)
        for e in list(base) + [('T', b) for b in base] + [('I', ('leaf', n, 0)) for n in c04.CLOSED_INV[fam]] + [('red', b) for b in base]:
            out.append(('struct', fam, e, ('wide', True)))
        for e in small:
            out.append(('struct', fam, e, ('f16', True)))
            out.append(('struct', fam, e, ('bf16', False)))
            if not any(n in ('Tz', 'To', 'To3', 'Tf') for n in leaf_names(e)):
                out.append(('struct', fam, e, ('c64', True)))
    for kind in ('row', 'col', 'diag'):
        for cont in ('list', 'dict', 'nest', 'tuple'):
            for ar in (1, 2, 3):
                pool = {'row': ['A', 'V', 'D'], 'col': ['A', 'W', 'P'], 'diag': ['W', 'A', 'P']}[kind]
                blocks = tuple(('leaf', n, i) for i, n in enumerate((pool * 2)[3 - ar:3] if ar < 3 else pool))
                out.append(('struct', 'vec', (kind, cont, blocks), ('f32', False)))
                out.append(('struct', 'vec', ('T', (kind, cont, blocks)), ('f64', True)))
    # whatever a validating constructor ACCEPTS must be honest: the specification families of C11 (diagonals) and C13 (axes)
    from . import c11, c13
    for k in c11.cases(tier, seed):
        if k[0] == 'diag':
            out.append(('accept', 'diag', k))
    for k in c13.cases(tier, seed):
        if k[0] in ('move', 'ravel', 'reshape') and (len(k[1]) > 1 or tier == 'thorough' or zlib.crc32(repr(k).encode()) % 4 == 0):
            out.append(('accept', 'axes', k))
    from . import c12
    for k in c12.cases(tier, seed):
        if k[0] == 'pack':
            out.append(('accept', 'pack', k))
    out.append(('custom',))
    return out


def twins():
    return [('symdim', 'ravel_part'), ('struct', 'vec', ('leaf', 'W', 0), ('f32', True))]


def _dim2z3(d, env):
    import z3
    if isinstance(d, (int, np.integer)):
        return z3.IntVal(int(d))
    ns = dict(env)
    ns.update(floordiv=lambda x, y: x / y, mod=lambda x, y: x % y, max=lambda x, y: z3.If(x >= y, x, y), min=lambda x, y: z3.If(x <= y, x, y))
    return eval(str(d).replace('^', '**'), {'__builtins__': {}}, ns)  # dimension polynomials printed by JAX


def _symdim(name, twin):
    import time
    import z3
    from jax import export
    mk = _sym_cases()[name]
    a, b = export.symbolic_shape('a, b')
    try:
        op = mk(a, b)
        decl_in, decl_out = op.in_structure(), op.out_structure()
        traced = jax.eval_shape(op.mv, decl_in)
    except Exception as ex:  # noqa: BLE001
        return inconclusive(f'construction with symbolic dimensions failed: {type(ex).__name__}: {str(ex)[:100]}')
    dl, tl = jax.tree.leaves(decl_out), jax.tree.leaves(traced)
    if jax.tree.structure(decl_out) != jax.tree.structure(traced) or any(len(d.shape) != len(t.shape) or d.dtype != t.dtype for d, t in zip(dl, tl)):
        return violation(f'{name}: declared {describe_struct(decl_out)} vs traced {describe_struct(traced)} (tree/rank/dtype)', signature=f'c05-symdim-tree:{name}', kind='symdim-tree')
    env = {'a': z3.Int('a'), 'b': z3.Int('b')}
    s = z3.Solver()
    s.set('timeout', 30000)
    s.add(env['a'] >= 1, env['b'] >= 1)
    dis = []
    for d, t in zip(dl, tl):
        dis += [_dim2z3(x, env) != _dim2z3(y, env) for x, y in zip(d.shape, t.shape)]
    out_size = op.out_size()
    if twin:
        out_size = out_size + 1
    dis.append(_dim2z3(out_size, env) != sum((_dim2z3(math.prod(t.shape), env) for t in tl), z3.IntVal(0)))
    dis.append(_dim2z3(op.in_size(), env) != sum((_dim2z3(math.prod(t.shape), env) for t in jax.tree.leaves(decl_in)), z3.IntVal(0)))
    s.add(z3.Or(dis))
    t0 = time.time()
    r = str(s.check())
    dt = time.time() - t0
    if r == 'unsat':
        return ok(obligations=1, nontrivial=True, solver_s=dt, sample=dict(case=name, out=[[str(x) for x in t.shape] for t in tl], out_size=str(op.out_size()), verdict='unsat for all a,b >= 1'))
    if r == 'unknown':
        return inconclusive('solver unknown', solver_s=dt)
    m = s.model()
    model = {'a': str(m.eval(env['a'], model_completion=True)), 'b': str(m.eval(env['b'], model_completion=True))}
    return violation(f'{name}: declared structure/size differs from the traced one at a={model["a"]}, b={model["b"]}', model=model, signature=f'c05-symdim:{name}',
                     kind='symdim', twin=twin, solver_s=dt)


def _struct(fam, e, cfg, twin=False):
    dt, x64 = cfg
    dtype = {'f32': f32, 'f64': f64, 'f16': jnp.float16, 'bf16': jnp.bfloat16, 'c64': jnp.complex64, 'wide': f32}[dt]

    def go():
        with default_dtype(dtype):
            try:
                if dt == 'wide':
                    bld_ = Builder(fam)
                    op = bld_.build(e, [jnp.asarray(p_, jnp.float64) for p_ in concrete_params(bld_, e)])
                    if not any(np.dtype(getattr(l, 'dtype', f32)) == np.dtype(jnp.float64) for l in jax.tree.leaves(op)):
                        return skipped('no parameter array: nothing is wider than the structure')
                else:
                    op = build_concrete(fam, e)
                xin = op.in_structure()
            except ValueError as ex:
                return skipped(f'ill-typed: {str(ex)[:50]}')
            except Exception as ex:  # noqa: BLE001
                return violation(f'construction of {show(e)} raises {type(ex).__name__}: {str(ex)[:120]} in configuration {cfg}', signature=f'c05-ctor:{fam}:{show(e)}:{cfg}', kind='struct')
            try:
                decl = op.out_structure()
                traced = jax.eval_shape(op.mv, xin)
            except Exception as ex:  # noqa: BLE001
                return violation(f'mv/out_structure of {show(e)} raises {type(ex).__name__}: {str(ex)[:120]} in configuration {cfg}', signature=f'c05-raises:{fam}:{show(e)}:{cfg}', kind='struct')
            if twin:
                traced = jax.tree.map(lambda l: jax.ShapeDtypeStruct(l.shape + (1,), l.dtype), traced)
            if not structs_equal(decl, traced):
                sig = f'c05-wide-param-dtype:{type(op).__name__}' if dt == 'wide' else f'c05-out:{fam}:{show(e)}:{cfg}'
                return violation(f'{show(e)} [{fam}, {cfg}]: out_structure() = {describe_struct(decl)} but mv returns {describe_struct(traced)}',
                                 signature=sig, kind='struct')
            ins, outs = jax.tree.leaves(xin), jax.tree.leaves(traced)
            problems = []
            if op.in_size() != sum(math.prod(l.shape) for l in ins):
                problems.append(f'in_size()={op.in_size()}')
            if op.out_size() != sum(math.prod(l.shape) for l in outs):
                problems.append(f'out_size()={op.out_size()}')
            if ins and np.dtype(op.in_promoted_dtype) != np.dtype(jnp.result_type(*ins)):
                problems.append(f'in_promoted_dtype={op.in_promoted_dtype}')
            if outs and np.dtype(op.out_promoted_dtype) != np.dtype(jnp.result_type(*outs)):
                problems.append(f'out_promoted_dtype={op.out_promoted_dtype}')
            if problems:
                return violation(f'{show(e)} [{fam}, {cfg}]: ' + ', '.join(problems), signature=f'c05-size-dtype:{fam}:{show(e)}:{cfg}', kind='struct')
            return ok(obligations=0, structure_checks=1, nontrivial=not structs_equal(decl, xin), sample=dict(operator=show(e), family=fam, config=list(cfg), out=str(describe_struct(decl))[:120]))
    if x64:
        return go()
    with jax.enable_x64(False):
        return go()


def _custom():
    """The generic size / promoted-dtype helpers on a harness-defined operator whose output dtypes differ from its input dtypes."""
    from furax._base.core import AbstractLinearOperator

    class Widen(AbstractLinearOperator):
        def mv(self, x):
            return {'c': x['a'][:2], 'd': jnp.concatenate([x['b'], x['b']]).astype(jnp.float64), 'e': x['a'].astype(jnp.float16)}

        def in_structure(self):
            return {'a': jax.ShapeDtypeStruct((3,), jnp.float32), 'b': jax.ShapeDtypeStruct((4,), jnp.float16)}
    op = Widen()
    bad = []
    outs = jax.eval_shape(op.mv, op.in_structure())
    if not structs_equal(op.out_structure(), outs):
        bad.append('out_structure')
    if op.in_size() != 7 or op.out_size() != 2 + 8 + 3:
        bad.append(f'in_size={op.in_size()} out_size={op.out_size()}')
    if np.dtype(op.in_promoted_dtype) != np.dtype(jnp.float32):
        bad.append(f'in_promoted_dtype={op.in_promoted_dtype}')
    if np.dtype(op.out_promoted_dtype) != np.dtype(jnp.float64):
        bad.append(f'out_promoted_dtype={op.out_promoted_dtype}')
    t = op.T
    if not structs_equal(t.in_structure(), outs) or not structs_equal(t.out_structure(), op.in_structure()):
        bad.append('transpose structures')
    if np.dtype(t.in_promoted_dtype) != np.dtype(jnp.float64) or np.dtype(t.out_promoted_dtype) != np.dtype(jnp.float32):
        bad.append('transpose promoted dtypes')
    if bad:
        return violation('generic structure helpers on an operator with different input/output dtypes: ' + ', '.join(bad), signature='c05-custom:' + ','.join(bad)[:80], kind='struct')
    return ok(obligations=0, structure_checks=1, nontrivial=True, sample=dict(operator='harness-defined Widen (f32,f16) -> (f32,f64,f16)'))


def _accept(what, k):
    """If the constructor accepts the specification, the declared structures must be those of mv (and of T.mv)."""
    from . import c11, c13
    try:
        if what == 'diag':
            _, shapes, vs, ax, strict = k
            op = c11._cls(strict)(jnp.ones(vs), axis_destination=ax, in_structure=c11._ins(shapes))
        elif what == 'pack':
            from furax._base.linear import PackOperator
            from furax.landscapes import StokesPyTree
            _, skind, shape, mk = k
            ins_ = S(*shape) if skind == 'arr' else StokesPyTree.class_for(skind).structure_for(tuple(shape), f64)
            op = PackOperator(jnp.asarray(np.array(mk, dtype=bool)), ins_)
        else:
            op = c13._make(k)()
        xin = op.in_structure()
    except Exception:  # noqa: BLE001
        return ok(obligations=0, nontrivial=False, structure_checks=0, sample=None)   # refused: nothing is declared
    try:
        traced = jax.eval_shape(op.mv, xin)
    except Exception:  # noqa: BLE001
        # accepted but not applicable to any input (e.g. a move-axis beyond the rank of a leaf, which the property does not require
        # to be refused at construction): no application returns anything, nothing to be dishonest about
        return ok(obligations=0, nontrivial=False, structure_checks=0, sample=None)
    try:
        decl = op.out_structure()
    except Exception as ex:  # noqa: BLE001
        return violation(f'{type(op).__name__} built from {k[1:]} applies to its input but out_structure() raises {type(ex).__name__}: {str(ex)[:100]}', signature=f'c05-accept-raises:{k}', kind='struct')
    problems = []
    if not structs_equal(decl, traced):
        problems.append(f'out_structure() = {describe_struct(decl)} but mv returns {describe_struct(traced)}')
    if op.out_size() != sum(math.prod(l.shape) for l in jax.tree.leaves(traced)):
        problems.append(f'out_size()={op.out_size()}')
    try:
        t = op.T
        tt = jax.eval_shape(t.mv, traced)
        if not structs_equal(t.in_structure(), traced) or not structs_equal(t.out_structure(), xin) or not structs_equal(tt, xin):
            problems.append(f'transpose declares {describe_struct(t.in_structure())} -> {describe_struct(t.out_structure())}, T.mv returns {describe_struct(tt)}')
    except Exception as ex:  # noqa: BLE001
        problems.append(f'transpose raises {type(ex).__name__}: {str(ex)[:80]}')
    if problems:
        return violation(f'{type(op).__name__} built from {k[1:]}: ' + '; '.join(problems), signature=f'c05-accept:{k}', kind='struct')
    return ok(obligations=0, structure_checks=1, nontrivial=not structs_equal(decl, xin), sample=dict(operator=type(op).__name__, spec=repr(k[1:])[:100], out=str(describe_struct(decl))[:100]))


def run_case(key, twin=False):
    if key and key[0] == 'twin':
        return run_case(key[1], twin=True)
    if key[0] == 'custom':
        return _custom()
    if key[0] == 'symdim':
        return _symdim(key[1], twin)
    if key[0] == 'accept':
        return _accept(key[1], key[2])
    _, fam, e, cfg = key
    return _struct(fam, e, tuple(cfg), twin)


def replay(key, model, info):
    twin = False
    if key and key[0] == 'twin':
        key, twin = key[1], True
    key = _tuplify(key)
    if key[0] == 'symdim':
        a, b = int(model.get('a', 2)), int(model.get('b', 3))
        op = _sym_cases()[key[1]](a, b)
        decl = op.out_structure()
        traced = jax.eval_shape(op.mv, op.in_structure())
        bad = not structs_equal(decl, traced) or op.out_size() + (1 if twin else 0) != sum(math.prod(l.shape) for l in jax.tree.leaves(traced)) \
            or op.in_size() != sum(math.prod(l.shape) for l in jax.tree.leaves(op.in_structure()))
        return bad, f'{key[1]} at a={a}, b={b}: declared {describe_struct(decl)} / out_size {op.out_size()} vs traced {describe_struct(traced)}'
    r = run_case(key, twin)
    return r['status'] == 'violation', r.get('what', 'ok')
