"""C18 - results do not depend on JIT compilation or pytree round trips."""
from __future__ import annotations

import itertools
import random

import equinox as eqx
import jax
import jax.numpy as jnp
import numpy as np

from .. import interp as E
from ..catalogue import FAM, Builder, show
from ..common import Decider, S, describe_struct, f32, f64, model_tree, pairs, structs_equal, trees_close
from ..harness import inconclusive, ok, skipped, violation
from ..programs import build_concrete, params_from_model, real_solver
from .c01 import _tuplify

ID = 'C18'
LEVEL = 'translation_validation'
TECHNIQUE = 'IR equivalence: three jaxprs of the real code (constructor trace, argument trace with array leaves traced, flatten/unflatten trace) interpreted symbolically + z3; landscapes round trip enumerated'
EXPLANATION = ('For each operator program three traces are proved equivalent for all inputs and all values of the float leaves: (T1) the operator '
               'built by its constructor and applied; (T2) what equinox.filter_jit traces when the operator is an argument - every array leaf '
               '(float parameters AND integer index arrays) is a tracer, the rest static; (T3) tree_unflatten(tree_flatten(op)).mv. A tracer '
               'error in T2/T3 (value-dependent Python control flow) is a violation, replayed with the real equinox.filter_jit / jax.jit. '
               'The real jit/filter_jit/eager executions are additionally compared numerically once per program (concrete; shapes and dtypes exactly). '
               'Landscapes: flatten/unflatten round trip compared attribute by attribute over an enumerated family.')
FUNCTIONS = ['every operator class (equinox field declarations, static vs. dynamic)', 'every mv reached', 'Landscape/StokesLandscape/HealpixLandscape/FrequencyLandscape.tree_flatten/tree_unflatten']
BOUNDS = {'quick': 'catalogue leaves of 4 families, .T, closed-form .I, 25 composites per family; boolean-mask operators excluded from T2 (as in the statement); landscapes: nside 1,2,4,8 x 4 Stokes kinds x 2 dtypes, 2-d/3-d maps',
          'thorough': 'up to 2 500 composites per family'}
BOUNDS['quick'] += '; every leaf, leaf.T and closed-form leaf.I of six families executed with 64-bit mode off (eager / closure jit / filter_jit argument / round trip, concrete); 9 pairs of operators differing in one static field through one jitted function (concrete executions)'
STUBS = ['lineax.linear_solve contract stub for programs with a lazy inverse']
ASSUMPTIONS = ['real arithmetic: equality of the IRs\' denotations; floating-point agreement of compiled vs op-by-op execution is only sampled numerically (rtol 1e-6)',
               'jax.jit with the operator as a plain argument (non-array leaves traced) is not part of the statement']
RULE = 'case = operator expression (or landscape configuration); non-trivial = the program has array leaves; distinct keys'
BUDGET = {'quick': 400, 'thorough': 1800}
MASK_LEAVES = {'Mk', 'Pk'}


def cases(tier, seed):
    from . import c01, c04
    from ..catalogue import leaf_names
    rnd = random.Random(f'c18-{seed}')
    out = []
    for fam in ('vec', 'mat', 'stokes', 'tree'):
        base = [('leaf', n, 0) for n in FAM[fam]]
        progs = list(base) + [('T', b) for b in base] + [('I', ('leaf', n, 0)) for n in c04.CLOSED_INV[fam]]
        comp = c01.gen_programs(fam, 'quick', seed)
        rnd.shuffle(comp)
        progs += (c01.gen_programs(fam, 'thorough', seed)[:2500] if tier == 'thorough' else comp[:25])
        out += [('jit', fam, e) for e in progs]
    for nside in (1, 2, 4, 8):
        for st in ('I', 'QU', 'IQU', 'IQUV'):
            for dt in ('float32', 'float64'):
                out.append(('landscape', 'healpix', nside, st, dt))
                out.append(('landscape', 'frequency', nside, st, dt))
    for shape in ((4,), (3, 5), (2, 3, 4)):
        for st in ('I', 'QU', 'IQU', 'IQUV'):
            out.append(('landscape', 'stokes', shape, st, 'float32'))
            out.append(('landscape', 'stokes-pixel', shape, st, 'float64'))
    out += [('alias', n) for n in _alias_pairs()]
    # 64-bit mode off: the same real executions (eager, jit over a closure, filter_jit argument, flatten/unflatten) in float32
    for fam in ('vec', 'mat', 'stokes', 'tree', 'iquv', 'qu'):
        base = [('leaf', n, 0) for n in FAM[fam]]
        for e in base + [('T', b) for b in base] + [('I', ('leaf', n, 0)) for n in c04.CLOSED_INV.get(fam, ())]:
            out.append(('jit32', fam, e))
    return out


def twins():
    return [('jit', 'vec', ('leaf', 'D', 0))]


def _is_arr(x):
    # exactly the leaves equinox.filter_jit traces (JAX arrays, NumPy arrays and NumPy scalars)
    return bool(eqx.is_array(x))


def _split_leaves(op):
    leaves, tdef = jax.tree.flatten(op)
    return leaves, tdef


def run_case(key, twin=False):
    if key and key[0] == 'twin':
        return run_case(key[1], twin=True)
    if key[0] == 'landscape':
        return _landscape(key)
    if key[0] == 'config':
        return _config()
    if key[0] == 'alias':
        return _alias(key[1])
    if key[0] == 'jit32':
        return _jit32(key[1], key[2])
    from ..catalogue import leaf_names
    _, fam, e = key
    bld = Builder(fam)
    try:
        op0 = build_concrete(fam, e)
        xin = op0.in_structure()
    except ValueError as ex:
        return skipped(f'ill-typed: {str(ex)[:50]}')
    except Exception as ex:  # noqa: BLE001
        return skipped(f'construction raises {type(ex).__name__}')
    has_mask = bool(MASK_LEAVES & set(leaf_names(e)))
    pst = bld.structs(e)
    leaves0, tdef0 = jax.tree.flatten(op0)
    int_pos = [i for i, l in enumerate(leaves0) if _is_arr(l) and not jnp.issubdtype(jnp.asarray(l).dtype, jnp.inexact)]
    int_vals = [np.asarray(leaves0[i]) for i in int_pos]
    int_pos0 = list(int_pos)
    ctx = E.Ctx()
    dec = Decider()
    assume = bld.assumptions(e)
    # T1: constructor trace
    try:
        y1, s1 = E.run(ctx, lambda p, x: bld.build(e, list(p)).mv(x), [('p', pst, 'sym'), ('x', xin, 'sym')])[:2]
    except NotImplementedError as ex:
        if 'fxsmt_' in str(ex):
            return skipped('transpose of an iterative inverse: outside the claim')
        raise

    # T2: argument trace (all array leaves traced; integer arrays are traced arguments with their concrete values)
    def t2(p, ints, x):
        op = bld.build(e, list(p))
        leaves, tdef = jax.tree.flatten(op)
        ipos = [i for i, l in enumerate(leaves) if _is_arr(l) and not jnp.issubdtype(jnp.asarray(l).dtype, jnp.inexact)]
        for i, v in zip(ipos, ints):
            leaves[i] = v
        dyn, static = eqx.partition(jax.tree.unflatten(tdef, leaves), eqx.is_array)
        op2 = eqx.combine(dyn, static)
        y = op2.mv(x)
        return jax.tree.map(lambda l: l * 2, y) if twin else y

    # T3: flatten / unflatten round trip
    def t3(p, x):
        op = bld.build(e, list(p))
        leaves, tdef = jax.tree.flatten(op)
        return jax.tree.unflatten(tdef, leaves).mv(x)
    res = []
    if not has_mask:
        try:
            y2, s2, _ = E.run(ctx, t2, [('p', pst, 'sym'), ('i', int_vals, 'const'), ('x', xin, 'sym')])
        except (jax.errors.ConcretizationTypeError, jax.errors.TracerBoolConversionError, jax.errors.TracerIntegerConversionError,
                jax.errors.TracerArrayConversionError, jax.errors.NonConcreteBooleanIndexError) as ex:
            return violation(f'{show(e)} cannot be traced with its array leaves as jit arguments: {type(ex).__name__}: {str(ex)[:150]}',
                             signature=f'c18-tracer:{fam}:{show(e)}', kind='tracer')
        if not structs_equal(s1, s2):
            return violation(f'{show(e)}: argument-jit trace returns {describe_struct(s2)}, constructor trace {describe_struct(s1)}', signature=f'c18-aval:{fam}:{show(e)}', kind='aval')
        res.append(('argument trace == constructor trace', dec.decide(ctx, pairs(y1, y2, ctx), assumptions=assume)))
    try:
        y3, s3, _ = E.run(ctx, t3, [('p', pst, 'sym'), ('x', xin, 'sym')])
    except Exception as ex:  # noqa: BLE001
        if isinstance(ex, (E.Unsupported, E.OutOfBounds)):
            raise
        return violation(f'{show(e)}: flatten/unflatten round trip fails: {type(ex).__name__}: {str(ex)[:150]}', signature=f'c18-roundtrip:{fam}:{show(e)}', kind='roundtrip')
    if not structs_equal(s1, s3):
        return violation(f'{show(e)}: round-tripped operator returns {describe_struct(s3)}', signature=f'c18-aval:{fam}:{show(e)}', kind='aval')
    res.append(('flatten/unflatten == constructor trace', dec.decide(ctx, pairs(y1, y3, ctx), assumptions=assume)))
    # concrete executions with the real jit machinery (sampled numerically)
    msg = _real_jit(fam, e, op0, has_mask)
    if msg:
        return violation(f'{show(e)}: {msg}', signature=f'c18-realjit:{fam}:{show(e)}', kind='realjit')
    common = dict(prims=sorted(ctx.prims), **dec.stats())
    nob = common.pop('obligations')
    bad = [(n, r) for n, r in res if r.status != 'unsat']
    if not bad:
        return ok(obligations=nob, nontrivial=len(leaves0) > 0, sample=dict(program=show(e), family=fam, array_leaves=len(leaves0), int_leaves=len(int_pos),
                                                                           traces=['constructor', 'argument-jit' if not has_mask else '(mask: skipped)', 'flatten/unflatten'], verdict='unsat'), **common)
    if any(r.status == 'unknown' for _, r in bad):
        return inconclusive('solver unknown', obligations=nob, **common)
    n, r = bad[0]
    return violation(f'{n} fails for {show(e)} [{fam}]', model=r.model, signature=f'c18-{n}:{fam}:{show(e)}', kind='differs', twin=twin, obligations=nob, **common)


def _real_jit(fam, e, op0, has_mask):
    """Concrete: jax.jit closure, equinox.filter_jit argument, eager; values (rtol 1e-6), shapes and dtypes must agree."""
    from ..catalogue import has_tag
    with real_solver():
        x = jax.tree.map(lambda l: (jnp.arange(1, int(np.prod(l.shape)) + 1, dtype=l.dtype).reshape(l.shape) / 7), op0.in_structure())
        try:
            eager = op0.mv(x)
        except Exception as ex:  # noqa: BLE001
            return None  # eager failure is not this property's business
        try:
            closed = jax.jit(lambda x: op0.mv(x))(x)
        except Exception as ex:  # noqa: BLE001
            return f'jax.jit(lambda x: op.mv(x)) raises {type(ex).__name__}: {str(ex)[:120]}'
        tol = 1e-3 if has_tag(e, ('I', 'lazyI')) else 1e-6
        for name, got in [('closure jit', closed)]:
            if jax.tree.structure(got) != jax.tree.structure(eager) or any(a.shape != b.shape or a.dtype != b.dtype for a, b in zip(jax.tree.leaves(got), jax.tree.leaves(eager))):
                return f'{name} returns different shapes/dtypes than eager'
            close, msg = trees_close(got, eager, rtol=tol)
            if not close:
                return f'{name} differs from eager: {msg}'
        # a FRESH instance whose very first use happens under a trace, and is then used again eagerly and under a second jit:
        # nothing computed during the first trace may stay on the instance
        try:
            op1 = build_concrete(fam, e)
        except Exception:  # noqa: BLE001
            op1 = None
        if op1 is not None:
            try:
                first = jax.jit(lambda x: op1.mv(x))(x)
                after = op1.mv(x)
                again = jax.jit(lambda x: jax.tree.map(lambda l: 2 * l, op1.mv(x)))(x)
            except Exception as ex:  # noqa: BLE001
                return f'an instance first applied under jax.jit cannot be used again: {type(ex).__name__}: {str(ex)[:120]}'
            for name, got in (('first jitted use', first), ('eager use after a jitted first use', after), ('second jit', jax.tree.map(lambda l: l / 2, again))):
                close, msg = trees_close(got, eager, rtol=tol)
                if not close:
                    return f'{name} differs from eager on a fresh instance: {msg}'
        if not has_mask:
            try:
                arg = eqx.filter_jit(lambda op, x: op.mv(x))(op0, x)
            except Exception as ex:  # noqa: BLE001
                return f'equinox.filter_jit(lambda op, x: op.mv(x)) raises {type(ex).__name__}: {str(ex)[:120]}'
            if jax.tree.structure(arg) != jax.tree.structure(eager) or any(a.shape != b.shape or a.dtype != b.dtype for a, b in zip(jax.tree.leaves(arg), jax.tree.leaves(eager))):
                return 'filter_jit returns different shapes/dtypes than eager'
            close, msg = trees_close(arg, eager, rtol=tol)
            if not close:
                return f'filter_jit differs from eager: {msg}'
    return None


def _mk_landscape(key):
    from furax.landscapes import FrequencyLandscape, HealpixLandscape, StokesLandscape
    _, kind, a, st, dt = key
    dtype = np.dtype(dt)
    if kind == 'healpix':
        return HealpixLandscape(a, st, dtype)
    if kind == 'frequency':
        return FrequencyLandscape(a, jnp.array([100., 150., 220.]), st, dtype)

    class Flat(StokesLandscape):
        def world2pixel(self, theta, phi):
            return (theta,)
    jax.tree_util.register_pytree_node_class(Flat)
    if kind == 'stokes':
        return Flat(tuple(a), st, dtype)
    return Flat(None, st, dtype, pixel_shape=tuple(a))


def _landscape(key):
    try:
        ls = _mk_landscape(key)
    except Exception as ex:  # noqa: BLE001
        return violation(f'landscape {key} cannot be constructed: {type(ex).__name__}: {ex}', signature=f'c18-landscape-ctor:{key[1]}', kind='landscape')
    try:
        leaves, tdef = jax.tree.flatten(ls)
        back = jax.tree.unflatten(tdef, leaves)
    except Exception as ex:  # noqa: BLE001
        return violation(f'flatten/unflatten of {type(ls).__name__}{key[2:]} raises {type(ex).__name__}: {str(ex)[:150]}', signature=f'c18-landscape:{key[1]}', kind='landscape')
    diffs = []
    for attr in ('shape', 'pixel_shape', 'stokes', 'dtype', 'nside', 'size'):
        if hasattr(ls, attr) != hasattr(back, attr):
            diffs.append(f'{attr} missing')
        elif hasattr(ls, attr) and getattr(ls, attr) != getattr(back, attr):
            diffs.append(f'{attr}: {getattr(ls, attr)!r} -> {getattr(back, attr)!r}')
    if type(back) is not type(ls):
        diffs.append(f'type {type(back).__name__}')
    if hasattr(ls, 'frequencies') and not (hasattr(back, 'frequencies') and np.array_equal(np.asarray(ls.frequencies), np.asarray(back.frequencies))):
        diffs.append('frequencies')
    if len(ls) != len(back) or not structs_equal(ls.structure, back.structure):
        diffs.append('len/structure')
    try:
        z0, z1 = ls.zeros(), back.zeros()
        if not structs_equal(jax.eval_shape(lambda: z0), jax.eval_shape(lambda: z1)):
            diffs.append('zeros() structure')
    except Exception as ex:  # noqa: BLE001
        diffs.append(f'zeros() raises {type(ex).__name__}')
    if diffs:
        return violation(f'{type(ls).__name__}{key[2:]} round trip changes: ' + ', '.join(diffs), signature=f'c18-landscape:{key[1]}', kind='landscape')
    return ok(obligations=0, roundtrip_checks=1, nontrivial=True, sample=dict(landscape=type(ls).__name__, args=repr(key[2:])))


def _jit32(fam, e):
    """Concrete executions with jax_enable_x64 off (float32 parameters and data)."""
    from ..catalogue import leaf_names
    from ..common import default_dtype, f32
    e = _tuplify(e)
    with jax.enable_x64(False), default_dtype(f32):
        try:
            op0 = build_concrete(fam, e)
            op0.in_structure()
        except Exception as ex:  # noqa: BLE001
            return skipped(f'construction raises {type(ex).__name__}')
        msg = _real_jit(fam, e, op0, bool(MASK_LEAVES & set(leaf_names(e))))
        if msg is None:
            try:
                leaves, tdef = jax.tree.flatten(op0)
                back = jax.tree.unflatten(tdef, leaves)
                x = jax.tree.map(lambda l: (jnp.arange(1, int(np.prod(l.shape)) + 1, dtype=l.dtype).reshape(l.shape) / 7), op0.in_structure())
                a, b = back.mv(x), op0.mv(x)
                if jax.tree.structure(a) != jax.tree.structure(b) or any(u.shape != v.shape or u.dtype != v.dtype for u, v in zip(jax.tree.leaves(a), jax.tree.leaves(b))):
                    msg = 'flatten/unflatten changes shapes/dtypes of the result'
                else:
                    close, m2 = trees_close(a, b, rtol=1e-6)
                    msg = None if close else f'flatten/unflatten changes the result: {m2}'
            except Exception as ex:  # noqa: BLE001
                msg = f'flatten/unflatten round trip raises {type(ex).__name__}: {str(ex)[:100]}'
    if msg:
        return violation(f'[x64 off] {show(e)} [{fam}]: {msg}', signature=f'c18-jit32:{fam}:{show(e)}', kind='jit32')
    return ok(obligations=0, concrete_checks=4, nontrivial=True, sample=dict(case=f'x64 off: {show(e)} [{fam}]'))


def _QUIET(solution):
    return None


def _alias_pairs():
    """Pairs of operators of one class with identical array leaves that differ in ONE static (non-array) field."""
    import lineax as lx
    from furax import Config, MoveAxisOperator, RavelOperator, ReshapeOperator
    from furax._base.core import InverseOperator
    from furax._base.dense import DenseBlockDiagonalOperator as Dense
    from furax._base.diagonal import BroadcastDiagonalOperator, DiagonalOperator
    from furax._base.indices import IndexOperator
    from furax.operators.toeplitz import SymmetricBandToeplitzOperator as Toe
    f = jnp.float32
    S_ = lambda *s: jax.ShapeDtypeStruct(s, f)  # noqa: E731
    spd = jnp.array([[4., 1, 0], [1, 3, 1], [0, 1, 2]], f)
    A = Dense(spd, S_(3), 'ij,j->i')

    def inv(**kw):
        with Config(solver=lx.CG(rtol=1e-6, atol=1e-6, max_steps=1), solver_throw=False, solver_callback=_QUIET, **kw):
            return InverseOperator(A)
    sq = jnp.arange(9., dtype=f).reshape(3, 3)
    return {
        'moveaxis destination': lambda: (MoveAxisOperator(0, 1, in_structure=S_(2, 2, 2)), MoveAxisOperator(0, 2, in_structure=S_(2, 2, 2))),
        'ravel axes': lambda: (RavelOperator(0, 1, in_structure=S_(2, 2, 2)), RavelOperator(1, 2, in_structure=S_(2, 2, 2))),
        'reshape target': lambda: (ReshapeOperator((2, 4), in_structure=S_(2, 2, 2)), ReshapeOperator((4, 2), in_structure=S_(2, 2, 2))),
        'einsum subscripts': lambda: (Dense(sq, S_(3), 'ij,j->i'), Dense(sq, S_(3), 'ji,j->i')),
        'diagonal axis': lambda: (BroadcastDiagonalOperator(jnp.array([1., 2, 3], f), axis_destination=0, in_structure=S_(3, 3)),
                                  BroadcastDiagonalOperator(jnp.array([1., 2, 3], f), axis_destination=1, in_structure=S_(3, 3))),
        'index slice': lambda: (IndexOperator(slice(0, 2), in_structure=S_(4)), IndexOperator(slice(1, 3), in_structure=S_(4))),
        'toeplitz method': lambda: (Toe(jnp.array([2., 1], f), S_(5), method='dense'), Toe(jnp.array([2., 1], f), S_(5), method='fft')),
        # one CG iteration: the result depends on the preconditioner captured with the configuration
        'inverse solver options': lambda: (inv(solver_options={'preconditioner': DiagonalOperator(jnp.ones(3, f), in_structure=S_(3))}),
                                           inv(solver_options={'preconditioner': Dense(jnp.linalg.inv(spd), S_(3), 'ij,j->i')})),
        'inverse solver': lambda: (inv(), InverseOperator(A)),
    }


def _alias(name):
    """Both operators go through ONE filter_jit function (and one jax.jit function taking the operator as argument): a compilation made
    for the first must not be reused for the second although only a static field differs.  Concrete execution, no solver."""
    with real_solver():
        a, b = _alias_pairs()[name]()
        x = jax.tree.map(lambda s: jnp.arange(1., 1 + int(np.prod(s.shape)), dtype=s.dtype).reshape(s.shape) / 3, a.in_structure())
        for jname, mkf in (('equinox.filter_jit', lambda: eqx.filter_jit(lambda op, x: op.mv(x))), ('jax.jit', lambda: jax.jit(lambda op, x: op.mv(x)))):
            for first, second, tag in ((a, b, 'second'), (b, a, 'first')):
                f = mkf()
                try:
                    f(first, x)
                    got = f(second, x)
                except Exception as ex:  # noqa: BLE001
                    if jname == 'jax.jit':
                        continue   # plain jax.jit needs every leaf to be an array: not claimed for operators with non-array dynamic fields
                    return violation(f'{name}: {jname} with the operator as argument raises {type(ex).__name__}: {str(ex)[:120]}', signature=f'c18-alias-raises:{name}', kind='alias')
                want = second.mv(x)
                if jax.tree.structure(got) != jax.tree.structure(want) or any(g.shape != w.shape or g.dtype != w.dtype for g, w in zip(jax.tree.leaves(got), jax.tree.leaves(want))):
                    return violation(f'{name}: after a call with the other operator, {jname} returns the structure of the other operator for the {tag} one', signature=f'c18-alias:{name}', kind='alias')
                close, msg = trees_close(got, want, rtol=1e-5, atol=1e-6)
                if not close:
                    return violation(f'{name}: after a call with the other operator, {jname}(op, x) differs from eager op(x) for the {tag} operator: {msg} '
                                     f'(a compilation is reused although a static field differs)', signature=f'c18-alias:{name}', kind='alias')
    return ok(obligations=0, concrete_checks=4, nontrivial=True, sample=dict(case=f'alias: {name}', note='concrete executions through one jitted function'))


def _config():
    from furax import Config
    from furax._base.config import ConfigState
    import lineax as lx
    states = [Config.instance(), ConfigState(solver=lx.CG(rtol=1e-3, atol=1e-3), solver_throw=True, solver_options={'a': 1})]
    for s in states:
        try:
            leaves, tdef = jax.tree.flatten(s) if jax.tree_util.all_leaves([s]) is False else (None, None)
        except Exception:  # noqa: BLE001
            leaves = None
        aux = s.tree_flatten()
        back = ConfigState.tree_unflatten(aux[1], aux[0])
        if back != s:
            return violation('ConfigState flatten/unflatten changes the state', signature='c18-config', kind='config')
    return ok(obligations=0, roundtrip_checks=len(states), nontrivial=True, sample=dict(case='ConfigState round trip'))


def replay(key, model, info):
    twin = False
    if key and key[0] == 'twin':
        key, twin = key[1], True
    key = _tuplify(key)
    kind = info.get('kind')
    if key[0] in ('landscape', 'config', 'alias', 'jit32'):
        r = run_case(key)
        return r['status'] == 'violation', r.get('what', 'ok')
    _, fam, e = key
    if kind in ('tracer', 'realjit', 'aval', 'roundtrip'):
        with real_solver():
            op0 = build_concrete(fam, e)
            from ..catalogue import leaf_names
            msg = _real_jit(fam, e, op0, bool(MASK_LEAVES & set(leaf_names(e))))
            if msg:
                return True, msg
            try:
                l, t = jax.tree.flatten(op0)
                jax.tree.unflatten(t, l).mv(jax.tree.map(lambda s: jnp.ones(s.shape, s.dtype), op0.in_structure()))
            except Exception as ex:  # noqa: BLE001
                return True, f'round trip raises {type(ex).__name__}'
        r = run_case(key)
        return r['status'] == 'violation', r.get('what', 'ok')
    with real_solver():
        params = params_from_model(fam, e, model)
        op = Builder(fam).build(e, params)
        x = model_tree(model, 'x', op.in_structure())
        y1 = op.mv(x)
        y2 = eqx.filter_jit(lambda o, x: o.mv(x))(op, x)
        if twin:
            y2 = jax.tree.map(lambda l: 2 * l, y2)
        close, msg = trees_close(y1, y2, rtol=1e-6)
        if close:
            l, t = jax.tree.flatten(op)
            close, msg = trees_close(y1, jax.tree.unflatten(t, l).mv(x), rtol=1e-6)
    return (not close), f'{show(e)}: eager vs jit/round trip: {msg}'
