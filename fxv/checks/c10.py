"""C10 - block row / diagonal / column operators act as the block matrices of their blocks."""
from __future__ import annotations

import itertools
import random

import jax
import jax.numpy as jnp
import numpy as np

from .. import interp as E
from ..catalogue import FAM, Builder, container_get, make_container, show
from ..common import Decider, S, describe_struct, inner, model_tree, pairs, structs_equal, trees_close
from ..harness import inconclusive, ok, skipped, violation
from ..poly import Poly
from ..programs import build_concrete, optree, params_from_model, sym_eval
from . import c01

ID = 'C10'
LEVEL = 'other'
TECHNIQUE = 'jaxpr-level symbolic execution of block operators vs. an oracle that only calls the blocks\' own mv + z3; linear-coefficient extraction for as_matrix'
EXPLANATION = ('BlockRow/BlockDiagonal/BlockColumn operators over list/tuple/dict/nested/single containers of arity 1-3 are traced '
               'with symbolic block parameters and symbolic inputs; z3 compares mv with sum_i A_i x_i / (A_i x_i)_i / (A_i x)_i '
               'assembled by the harness from the blocks\' own traced mv, as_matrix with hstack/block_diag/vstack of the blocks\' '
               'coefficient matrices, the adjoint identity and type of .T, block-wise inverse, and products of adjacent block '
               'operators before/after reduce() (plus the expected result type). Constructor refusals are concrete outcomes.')
FUNCTIONS = ['BlockRowOperator.__init__/mv/transpose/out_structure/as_matrix', 'BlockDiagonalOperator.mv/transpose/inverse/as_matrix/reduce',
             'BlockColumnOperator.__init__/mv/transpose/in_structure/as_matrix', 'AbstractBlockOperator.in_structure/out_structure/reduce',
             'BlockRowBlockDiagonalRule', 'BlockDiagonalBlockColumnRule', 'BlockDiagonalBlockDiagonalRule', 'BlockRowBlockColumnRule']
BOUNDS = {'quick': 'containers list/tuple/dict/dict with unsorted insertion order/nested/single, arity 1-3, blocks from 8 catalogue kinds on (3,) vectors and 4 kinds on a '
                   'heterogeneous pytree; seeded 5 block tuples per (kind, container, arity); adjacent products: 3 seeded + 1 fixed non-commuting triple per (container, rule pair, arity) stratum',
          'thorough': 'all block tuples of arity <= 2 and seeded arity 3; 400 adjacent products'}
STUBS = []
ASSUMPTIONS = ['real arithmetic', 'scalars/diagonals that are inverted are != 0']
RULE = 'case = (block kind, container, block tuple); non-trivial = arity >= 2 or a symbolic block; distinct keys'
BUDGET = {'quick': 400, 'thorough': 2400}

POOLS = {
    ('vec', 'row'): ['A', 'D', 'k', 'V', 'Tz', 'I3'],
    ('vec', 'col'): ['A', 'W', 'P', 'U', 'Rs', 'D', 'k'],
    ('vec', 'diag'): ['A', 'W', 'V', 'D', 'k', 'P', 'Mk', 'Bd', 'I3'],
    ('tree', 'row'): ['k', 'D', 'Et', 'I'],
    ('tree', 'col'): ['k', 'D', 'Et', 'E', 'Rv', 'Ix'],
    ('tree', 'diag'): ['k', 'D', 'E', 'Rv', 'Ix', 'I'],
}
CONTAINERS = ['list', 'tuple', 'dict', 'nest', 'udict']
INVERTIBLE = {'vec': ['k', 'D', 'I3'], 'tree': ['k', 'D', 'I']}


def L(n, k=0):
    return ('leaf', n, k)


def cases(tier, seed):
    rnd = random.Random(f'c10-{seed}')
    out = []
    for (fam, kind), pool in POOLS.items():
        for cont in CONTAINERS + ['single']:
            for ar in (1, 2, 3):
                if cont == 'single' and ar != 1:
                    continue
                tuples = list(itertools.product(pool, repeat=ar))
                rnd.shuffle(tuples)
                if tier == 'quick':
                    tuples = tuples[: (5 if fam == 'vec' else 2)]
                elif ar == 3:
                    tuples = tuples[:40]
                for t in tuples:
                    # repeated names are distinct instances with their own parameters
                    blocks = tuple(L(n, i) for i, n in enumerate(t))
                    out.append(('act', fam, (kind, cont, blocks)))
    # block-wise inverse of block-diagonal operators
    for fam in ('vec', 'tree'):
        for cont in CONTAINERS:
            for t in itertools.product(INVERTIBLE[fam], repeat=2):
                out.append(('inv', fam, ('diag', cont, tuple(L(n, i) for i, n in enumerate(t)))))
            out.append(('inv', fam, ('diag', cont, tuple(L(n, i) for i, n in enumerate(INVERTIBLE[fam][:3])))))
    # adjacent block operators
    prods = []
    for fam in ('vec',):
        for cont in CONTAINERS:
            for lk, rk in (('row', 'diag'), ('diag', 'col'), ('diag', 'diag'), ('row', 'col')):
                lp, rp = POOLS[(fam, lk)], POOLS[(fam, rk)]
                for ar in (1, 2, 3):
                    # stratified: every (container, rule pair, arity) keeps its own draws (no global cut that could drop a stratum)
                    for _ in range(3 if tier == 'quick' else 25):
                        lt = tuple(L(rnd.choice(lp), i) for i in range(ar))
                        rt = tuple(L(rnd.choice(rp), 10 + i) for i in range(ar))
                        prods.append(('prod', fam, (lk, cont, lt), (rk, cont, rt)))
                    if ar == 3:
                        # one well-typed, non-commuting triple per stratum: square dense / diagonal blocks, all different
                        prods.append(('prod', fam, (lk, cont, (L('A', 0), L('D', 1), L('Tz', 2) if lk == 'row' else L('k', 2))),
                                      (rk, cont, (L('D', 10), L('A', 11), L('A', 12)))))
    out += prods
    out.append(('reject',))
    seen, res = set(), []
    for k in out:
        if k not in seen:
            seen.add(k)
            res.append(k)
    return res


def twins():
    return [('act', 'vec', ('row', 'list', (L('A', 0), L('D', 1)))), ('act', 'vec', ('diag', 'dict', (L('W', 0), L('k', 1))))]


def _tuplify(o):
    return c01._tuplify(o)


def linear_matrix(out_flat, x_flat):
    """Coefficient matrix of outputs that are linear forms in the atoms of x (entries: polynomials in the rest)."""
    names = []
    for p in x_flat:
        (a,) = p.atoms()
        names.append(a)
    col = {a: j for j, a in enumerate(names)}
    M = np.empty((len(out_flat), len(names)), dtype=object)
    for idx in np.ndindex(*M.shape):
        M[idx] = Poly()
    for i, p in enumerate(out_flat):
        for mono, c in p.t.items():
            xs = [(a, e) for a, e in mono if a in col]
            if len(xs) != 1 or xs[0][1] != 1:
                raise ValueError('output is not a linear form in x')
            rest = tuple((a, e) for a, e in mono if a not in col)
            j = col[xs[0][0]]
            M[i, j] = M[i, j] + Poly({rest: c})
    return M


def run_case(key, twin=False):
    if key and key[0] == 'twin':
        return run_case(key[1], twin=True)
    if key[0] == 'reject':
        return _reject()
    if key[0] == 'prod':
        return _prod(key)
    mode, fam, e = key
    kind, cont, blocks = e
    n = len(blocks)
    bld = Builder(fam)
    try:
        op0 = build_concrete(fam, e)
    except ValueError as ex:
        return skipped(f'ill-typed: {str(ex)[:60]}')
    try:
        xin, yout = op0.in_structure(), op0.out_structure()
        b0 = [build_concrete(fam, b) for b in blocks]
    except Exception as ex:  # noqa: BLE001
        return violation(f'structure query raises {type(ex).__name__}: {str(ex)[:120]} for {show(e)}', signature=f'c10-struct-raises:{show(e)}', kind='struct')
    bins = [b.in_structure() for b in b0]
    bouts = [b.out_structure() for b in b0]
    # expected structures, from the blocks alone
    if kind == 'row':
        exp_in, exp_out = make_container(cont, bins), bouts[0]
    elif kind == 'col':
        exp_in, exp_out = bins[0], make_container(cont, bouts)
    else:
        exp_in, exp_out = make_container(cont, bins), make_container(cont, bouts)
    if not structs_equal(xin, exp_in) or not structs_equal(yout, exp_out):
        return violation(f'declared structures of {show(e)}: in={describe_struct(xin)} out={describe_struct(yout)}; blocks imply '
                         f'in={describe_struct(exp_in)} out={describe_struct(exp_out)}', signature=f'c10-struct:{kind}:{cont}:{n}', kind='struct')
    ctx = E.Ctx()
    dec = Decider()
    assume = bld.assumptions(e)
    pst = bld.structs(e)
    res = []
    if mode == 'inv':
        x = E.symbols('x', xin)
        nz = []
        for i, (_, shape, _, _) in enumerate(bld.layout(e)):
            nz += [(a, 'ne', Poly()) for a in E.sym_array(f'p{i}', shape).reshape(-1)]
        try:
            inv0 = op0.I
        except Exception as ex:  # noqa: BLE001
            return violation(f'.I raises {type(ex).__name__} for {show(e)}', signature=f'c10-inv-raises:{show(e)}', kind='inv')
        from furax._base.blocks import BlockDiagonalOperator
        if not isinstance(inv0, BlockDiagonalOperator):
            return violation(f'inverse of a block diagonal of invertible blocks is {type(inv0).__name__}', signature=f'c10-inv-type:{cont}', kind='inv')
        a, _ = sym_eval(ctx, fam, e, lambda op, x: op.I.mv(op.mv(x)), xin)
        b, _ = sym_eval(ctx, fam, e, lambda op, x: op.mv(op.I.mv(x)), xin)
        res.append(('inv-left', dec.decide(ctx, pairs(a, x, ctx), assumptions=nz)))
        res.append(('inv-right', dec.decide(ctx, pairs(b, x, ctx), assumptions=nz)))
        # block by block
        for i, blk in enumerate(blocks):
            xi = container_get(cont, x, i, n)
            got, _, _ = E.run(ctx, lambda p, x: container_get(cont, bld.build(e, list(p)).I.mv(x), i, n), [('p', pst, 'sym'), ('x', xin, 'sym')])
            want, _, _ = E.run(ctx, lambda p, x: bld.build_part(e, list(p), blk).I.mv(container_get(cont, x, i, n)), [('p', pst, 'sym'), ('x', xin, 'sym')])
            res.append((f'inv-block{i}', dec.decide(ctx, pairs(got, want, ctx), assumptions=assume)))
    else:
        x = E.symbols('x', xin)
        got, gs, _ = E.run(ctx, lambda p, x: bld.build(e, list(p)).mv(x), [('p', pst, 'sym'), ('x', xin, 'sym')])
        if not structs_equal(gs, yout):
            return violation(f'mv of {show(e)} returns {describe_struct(gs)}, declared {describe_struct(yout)}', signature=f'c10-mv-struct:{kind}:{cont}:{n}', kind='mv-struct')
        outs = []
        for i, blk in enumerate(blocks):
            if kind == 'col':
                o, _, _ = E.run(ctx, lambda p, x: bld.build_part(e, list(p), blk).mv(x), [('p', pst, 'sym'), ('x', xin, 'sym')])
            else:
                o, _, _ = E.run(ctx, lambda p, x: bld.build_part(e, list(p), blk).mv(container_get(cont, x, i, n)), [('p', pst, 'sym'), ('x', xin, 'sym')])
            outs.append(o)
        if twin:
            outs[-1] = jax.tree.map(lambda l: l * 2, outs[-1], is_leaf=E.is_sym)
        if kind == 'row':
            want = outs[0]
            for o in outs[1:]:
                want = jax.tree.map(lambda a, b: a + b, want, o, is_leaf=E.is_sym)
        else:
            want = make_container(cont, outs)
        res.append(('mv', dec.decide(ctx, pairs(got, want, ctx), assumptions=assume)))
        # as_matrix = hstack / block_diag / vstack of the blocks' matrices (from their own mv)
        try:
            Mx, ms, _ = E.run(ctx, lambda p: bld.build(e, list(p)).as_matrix(), [('p', pst, 'sym')])
            xf = E.flat_elems(x)
            mats = []
            for i, o in enumerate(outs):
                xi = xf if kind == 'col' else E.flat_elems(container_get(cont, x, i, n))
                mats.append(linear_matrix(E.flat_elems(o, ctx), xi))
            # blocks in PYTREE-LEAF order of the container (sorted keys for dicts), which is the order of the flattened vectors
            order = jax.tree.leaves(make_container(cont, list(range(n))))
            mats = [mats[i] for i in order]
            if kind == 'row':
                W = np.concatenate(mats, axis=1)
            elif kind == 'col':
                W = np.concatenate(mats, axis=0)
            else:
                R, C = sum(m.shape[0] for m in mats), sum(m.shape[1] for m in mats)
                W = np.empty((R, C), dtype=object)
                for idx in np.ndindex(R, C):
                    W[idx] = Poly()
                r = c = 0
                for m in mats:
                    W[r:r + m.shape[0], c:c + m.shape[1]] = m
                    r += m.shape[0]
                    c += m.shape[1]
            if tuple(ms.shape) != W.shape:
                return violation(f'as_matrix of {show(e)} has shape {ms.shape}, block matrix has {W.shape}', signature=f'c10-mat-shape:{kind}:{cont}:{n}', kind='mat')
            res.append(('as_matrix', dec.decide(ctx, pairs(Mx, W, ctx), assumptions=assume)))
        except ValueError as ex:
            if 'linear form' not in str(ex):
                raise
        # transpose: type and adjoint identity
        from furax._base.blocks import BlockColumnOperator, BlockDiagonalOperator, BlockRowOperator
        t0 = op0.T
        expT = {'row': BlockColumnOperator, 'col': BlockRowOperator, 'diag': BlockDiagonalOperator}[kind]
        if type(t0) is not expT:
            return violation(f'transpose of {kind} is {type(t0).__name__}, expected {expT.__name__}', signature=f'c10-T-type:{kind}', kind='T-type')
        y = E.symbols('y', yout)
        aty, ts, _ = E.run(ctx, lambda p, y: bld.build(e, list(p)).T.mv(y), [('p', pst, 'sym'), ('y', yout, 'sym')])
        if not structs_equal(ts, xin):
            return violation(f'T.mv of {show(e)} returns {describe_struct(ts)}', signature=f'c10-T-struct:{kind}:{cont}:{n}', kind='T-struct')
        res.append(('adjoint', dec.decide(ctx, [(inner(got, y), inner(x, aty))], assumptions=assume)))
        # reduce() of the block operator itself (blocks reduced one by one; a block diagonal of identities is the identity)
        red, rs, _ = E.run(ctx, lambda p, x: bld.build(e, list(p)).reduce().mv(x), [('p', pst, 'sym'), ('x', xin, 'sym')])
        if not structs_equal(rs, yout):
            return violation(f'reduce() of {show(e)} maps to {describe_struct(rs)}, declared {describe_struct(yout)}', signature=f'c10-reduce-struct:{kind}:{cont}:{n}', kind='mv-struct')
        res.append(('reduce', dec.decide(ctx, pairs(red, got, ctx), assumptions=assume)))
    common = dict(prims=sorted(ctx.prims), **dec.stats())
    nob = common.pop('obligations')
    bad = [(nm, r) for nm, r in res if r.status != 'unsat']
    if not bad:
        return ok(obligations=nob, nontrivial=(n >= 2 or len(pst) > 0), sample=dict(case=show(e), family=fam, mode=mode, verdict='unsat',
                                                                                  smt_digest=res[0][1].digest), **common)
    if any(r.status == 'unknown' for _, r in bad):
        return inconclusive('solver unknown', obligations=nob, **common)
    nm, r = bad[0]
    return violation(f'{nm} fails for {show(e)} [{fam}]', model=r.model, signature=f'c10-{nm}:{fam}:{show(e)}', kind=nm, twin=twin, obligations=nob, **common)


def _prod(key):
    from furax._base.blocks import BlockColumnOperator, BlockDiagonalOperator, BlockRowOperator
    from furax._base.core import AdditionOperator, CompositionOperator
    _, fam, le, re = key
    e = ('@', le, re)
    bld = Builder(fam)
    try:
        op0 = build_concrete(fam, e)
        xin = op0.in_structure()
    except ValueError as ex:
        return skipped(f'ill-typed: {str(ex)[:60]}')
    try:
        red0 = op0.reduce()
    except Exception as ex:  # noqa: BLE001
        return violation(f'reduce() raises {type(ex).__name__}: {str(ex)[:100]} on {show(e)}', signature=f'c10-prod-raises:{show(e)}', kind='prod-raises')
    if not structs_equal(red0.in_structure(), op0.in_structure()) or not structs_equal(red0.out_structure(), op0.out_structure()):
        return violation(f'reduce() of adjacent block operators changes the structures: {show(e)} -> in {describe_struct(red0.in_structure())} '
                         f'out {describe_struct(red0.out_structure())}, expected in {describe_struct(op0.in_structure())} out {describe_struct(op0.out_structure())}',
                         signature=f'c10-prod-struct:{le[0]}@{re[0]}:{le[1]}', kind='prod-type')
    n = len(le[2])
    exp = {('row', 'diag'): BlockRowOperator, ('diag', 'col'): BlockColumnOperator, ('diag', 'diag'): BlockDiagonalOperator,
           ('row', 'col'): AdditionOperator}[(le[0], re[0])]
    if n >= 2 and not isinstance(red0, (exp, CompositionOperator)) and not (exp is AdditionOperator):
        return violation(f'adjacent block operators {show(e)} simplify to {type(red0).__name__}, expected {exp.__name__}',
                         signature=f'c10-prod-class:{le[0]}@{re[0]}', kind='prod-type')
    if isinstance(red0, CompositionOperator) and len(red0.operands) == 2 and type(red0.operands[0]).__name__.startswith('Block'):
        return violation(f'adjacent block operators {show(e)} are not simplified (reduce() returns {optree(red0)!r})'[:300],
                         signature=f'c10-prod-unreduced:{le[0]}@{re[0]}', kind='prod-type')
    ctx = E.Ctx()
    dec = Decider()
    a, _ = sym_eval(ctx, fam, e, lambda op, x: op.mv(x), xin)
    b, _ = sym_eval(ctx, fam, e, lambda op, x: op.reduce().mv(x), xin)
    r = dec.decide(ctx, pairs(a, b, ctx), assumptions=bld.assumptions(e))
    common = dict(prims=sorted(ctx.prims), **dec.stats())
    nob = common.pop('obligations')
    if r.status == 'unsat':
        return ok(obligations=nob, nontrivial=True, sample=dict(case=show(e), reduced=repr(optree(red0))[:160], verdict='unsat'), **common)
    if r.status == 'unknown':
        return inconclusive('solver unknown', obligations=nob, **common)
    return violation(f'product of adjacent block operators changes under reduce(): {show(e)}', model=r.model,
                     signature=f'c10-prod:{show(e)}', kind='prod', obligations=nob, **common)


def _reject():
    """Row (shared OUTPUT structure) and column (shared INPUT structure) operators must refuse, with ValueError, exactly the block
    tuples whose shared structures differ - in leaf shape, leaf dtype or pytree structure (container kind, keys, nesting) - wherever
    the odd block stands; block-diagonal operators accept everything."""
    from furax._base.blocks import BlockColumnOperator, BlockDiagonalOperator, BlockRowOperator
    from furax._base.core import IdentityOperator
    from furax._base.dense import DenseBlockDiagonalOperator
    bad = []
    s2, s3 = S(2), S(3)
    pool = {
        'i3': IdentityOperator(s3), 'i2': IdentityOperator(s2), 'i3f32': IdentityOperator(S(3, dtype=jnp.float32)),
        'w': DenseBlockDiagonalOperator(jnp.ones((2, 3)), s3, 'ij,j->i'), 'v': DenseBlockDiagonalOperator(jnp.ones((3, 2)), s2, 'ij,j->i'),
        'i21': IdentityOperator(S(2, 1)),
        'dxy': IdentityOperator({'x': s2, 'y': s3}), 'duv': IdentityOperator({'u': s2, 'v': s3}), 'tup': IdentityOperator((s2, s3)),
        'lst': IdentityOperator([s2, s3]), 'nest': IdentityOperator({'x': s2, 'y': {'z': s3}}), 'dyx': IdentityOperator({'x': s3, 'y': s2}),
        'dxy2': IdentityOperator({'x': s2, 'y': s3}),
    }
    names = list(pool)
    tuples = [(a, b) for a in names for b in names]
    tuples += [t for a in names for b in names if a != b for t in ((a, a, b), (a, b, a), (b, a, a))]
    n = 0
    for cls, shared in ((BlockRowOperator, 'out_structure'), (BlockColumnOperator, 'in_structure'), (BlockDiagonalOperator, None)):
        for t in tuples:
            ops = [pool[k] for k in t]
            ref = getattr(ops[0], shared)() if shared else None
            must = shared is not None and any(not structs_equal(getattr(o, shared)(), ref) for o in ops[1:])
            for cont in ('list', 'dict', 'nest') if len(t) == 2 or cls is not BlockDiagonalOperator else ('list',):
                blocks = make_container(cont, ops)
                n += 1
                try:
                    op = cls(blocks)
                    if must:
                        bad.append(f'{cls.__name__}({cont} of {t}) accepts blocks whose {shared}s differ')
                    elif shared:
                        got = getattr(op, shared)()
                        if not structs_equal(got, ref):
                            bad.append(f'{cls.__name__}({cont} of {t}).{shared}() = {describe_struct(got)}, blocks share {describe_struct(ref)}')
                except Exception:  # noqa: BLE001  ("refused at construction": any error)
                    if not must:
                        bad.append(f'{cls.__name__}({cont} of {t}) refuses blocks with matching {shared or "structures"}')
    if bad:
        return violation(f'block constructor validation ({len(bad)} of {n}): ' + '; '.join(bad[:4]), signature='c10-reject:' + ';'.join(sorted(set(b.split("(")[0] + b.split(")")[-1] for b in bad)))[:150], kind='reject')
    return ok(obligations=n, nontrivial=True, sample=dict(case='constructor refusals', n=n))


def replay(key, model, info):
    twin = False
    if key and key[0] == 'twin':
        key, twin = key[1], True
    key = _tuplify(key)
    kind = info.get('kind')
    if key[0] == 'reject':
        r = _reject()
        return r['status'] == 'violation', r.get('what', 'ok')
    if key[0] == 'prod':
        _, fam, le, re = key
        e = ('@', le, re)
        if kind in ('prod-raises', 'prod-type'):
            r = _prod(key)
            return r['status'] == 'violation', r.get('what', 'ok')
        op = Builder(fam).build(e, params_from_model(fam, e, model))
        x = model_tree(model, 'x', op.in_structure())
        close, msg = trees_close(op.mv(x), op.reduce().mv(x))
        return (not close), f'{show(e)}: {msg}'
    mode, fam, e = key
    bkind, cont, blocks = e
    n = len(blocks)
    bld = Builder(fam)
    if kind in ('struct', 'mv-struct', 'T-type', 'T-struct', 'mat', 'inv'):
        r = run_case(key)
        return r['status'] == 'violation', r.get('what', 'ok')
    params = params_from_model(fam, e, model)
    op = bld.build(e, params)
    bs = [bld.build_part(e, params, b) for b in blocks]
    x = model_tree(model, 'x', op.in_structure())
    if kind == 'mv':
        if bkind == 'col':
            outs = [b.mv(x) for b in bs]
        else:
            outs = [b.mv(container_get(cont, x, i, n)) for i, b in enumerate(bs)]
        if twin:
            outs[-1] = jax.tree.map(lambda l: 2 * l, outs[-1])
        if bkind == 'row':
            want = outs[0]
            for o in outs[1:]:
                want = jax.tree.map(jnp.add, want, o)
        else:
            want = make_container(cont, outs)
        close, msg = trees_close(op.mv(x), want)
        return (not close), f'mv of {show(e)}: {msg}'
    if kind == 'reduce':
        close, msg = trees_close(op.reduce().mv(x), op.mv(x))
        return (not close), f'reduce() of {show(e)} changes the result: {msg}'
    if kind == 'adjoint':
        y = model_tree(model, 'y', op.out_structure())
        dot = lambda a, b: float(sum(jnp.vdot(u, v) for u, v in zip(jax.tree.leaves(a), jax.tree.leaves(b))))  # noqa: E731
        l, r = dot(op.mv(x), y), dot(x, op.T.mv(y))
        return abs(l - r) > 1e-7 * max(1, abs(l), abs(r)), f'<Ax,y>={l} <x,ATy>={r}'
    if kind == 'as_matrix':
        M = np.asarray(op.as_matrix())
        xf = jnp.concatenate([l.ravel() for l in jax.tree.leaves(x)])
        yf = jnp.concatenate([l.ravel() for l in jax.tree.leaves(op.mv(x))])
        close, msg = trees_close(M @ np.asarray(xf), np.asarray(yf))
        return (not close), f'as_matrix @ x vs mv(x): {msg}'
    if kind and kind.startswith('inv'):
        close, msg = trees_close(op.I.mv(op.mv(x)), x)
        if close:
            close, msg = trees_close(op.mv(op.I.mv(x)), x)
        return (not close), f'inverse of {show(e)}: {msg}'
    return False, f'unknown kind {kind}'
