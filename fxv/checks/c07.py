"""C07 - reduce() reaches the documented normal form in every context (CrossHair on the real driver + real rule table)."""
from __future__ import annotations

import ast
import itertools
import os
import re
import subprocess
import sys
import time

from ..harness import VERIF, inconclusive, ok, skipped, violation

ID = 'C07'
ENGINE = 'crosshair'
SOLVER_NAME = 'CrossHair 0.0.110 (symbolic execution of Python, z3 inside); solver time = wall time of the CrossHair runs'
LEVEL = 'other'
TECHNIQUE = 'CrossHair (z3-backed symbolic execution) of the real AlgebraicReductionRule/IdentityRule/HomothetyRule.apply on symbolic chains over a rule table extracted from the real registry; real chains enumerated to validate the abstraction'
EXPLANATION = ('Layer 1: every registered binary rule is attempted on every ordered pair of 28 real operator instances (incl. a duplicate-free indexing of two axes); the outcome is the abstract '
               'rule table, which must contain every documented pattern (and must not rewrite the listed non-patterns). Layer 2: the REAL driver code '
               '(AlgebraicReductionRule.apply, IdentityRule.apply, HomothetyRule.apply) is executed by CrossHair on a SYMBOLIC chain (List[int] of kind '
               'codes incl. scalar and identity operators on every structure, symbolic scalar values), with the module-level names of rules.py bound to '
               'stubs that consult the table (three stub rules partition it, so the try/except/continue/else logic is exercised); postcondition: no input '
               'identity survives, no adjacent pair is reducible, at most one scalar factor, on the side with fewer elements, whose value is the product of '
               'all scalars that entered. Layer 3: all structure-compatible chains of REAL operators up to the bound are reduced by the real '
               'CompositionOperator.reduce(); the real result must be in normal form and must have the kind sequence the abstract model predicts '
               '(validation of the abstraction); for every rewritten real chain, wrapping an operand in a nested single-operand composition or '
               'inserting a composition of two identities (operands that simplify through their own reduce()) must give the same result.')
FUNCTIONS = ['AlgebraicReductionRule.apply', 'IdentityRule.apply', 'HomothetyRule.apply', 'AbstractBinaryRule.check', 'InverseBinaryRule.check', 'BINARY_RULE_REGISTRY and every registered rule (table layer)',
             'CompositionOperator.reduce (layer 3)']
BOUNDS = {'quick': 'layer 2: chains of length 2-3 over 42 codes (28 kinds + scalar/identity on 7 structures) and chains X, p, q, Y[, Z] of length 4-5 over a 13-code alphabet where p @ q is a vanishing pattern, scalar values in -3..3; layer 3: all real chains of length 2-3 and all real chains X @ (vanishing pair) @ Y [@ Z]',
          'thorough': 'quick tier + all symbolic chains of length 4 over an 8-code alphabet (A, A.I, U, U.T, Rot, Rot.T, HWP, polariser); layer 3: real chains of length <= 4'}
STUBS = ['rules.HomothetyOperator / IdentityOperator / jnp / BINARY_RULE_REGISTRY bound to table-driven stubs inside the CrossHair run (the driver code itself is the real one)']
ASSUMPTIONS = ['chains longer than the bound are outside the claim', 'identities produced by a rule mid-scan are not required to be removed (the property does not demand it)']
RULE = 'case = CrossHair run for one first code (all chains with that head), or one batch of real chains; non-trivial = the batch contains reducible chains; distinct keys'
BUDGET = {'quick': 900, 'thorough': 3600}
CASE_TIMEOUT = {'quick': 600, 'thorough': 2400}


def cases(tier, seed):
    from ..ch import c07_model as M
    n = M.NK + 2 * M.NS
    maxlen = 3
    out = [('table',)]
    out += [('real', first, maxlen if tier == 'quick' else 4) for first in range(M.NK + 2)]
    out += [('ch', first, maxlen) for first in range(n)]
    if tier == 'thorough':
        # all chains of length 4 over the 13-code alphabet (plain symbolic chains, no structure imposed)
        out += [('ch-small4', first, 4, second) for first in _alpha8(M) for second in _alpha8(M) if M.compatible([first, second])]   # incompatible heads admit no chain
    # one step deeper over the small alphabet of kinds that take part in annihilating / regenerating patterns
    small = _small_alphabet(M)
    out += [('ch-small', first, maxlen + 1) for first in small]
    out += [('real-nested', first) for first in range(M.NK + 2)]
    return out


def _alpha8(M):
    return [M.NAMES.index(n) for n in ('AI', 'A', 'U', 'UT', 'Rot', 'RotT', 'Hwp', 'Pol')]


def _small_alphabet(M):
    names = ['AI', 'A', 'U', 'UT', 'Rot', 'RotT', 'Hwp', 'Pol', 'W', 'Rs', 'RsT']
    s2 = M.SID[str(M.S(2))]
    return [M.NAMES.index(n) for n in names] + [M.NK + s2, M.NK + M.NS + s2]


def twins():
    return [('twin-ch',)]


def _crosshair(first, maxlen, timeout, mutant=False, allowed=None, minlen=2, nested=False, second=-1):
    env = dict(os.environ, C07_SECOND=str(second), C07_FIRST=str(first), C07_MAXLEN=str(maxlen), C07_MINLEN=str(minlen), PYTHONPATH=VERIF + os.pathsep + os.environ.get('PYTHONPATH', ''))
    env['C07_ALLOWED'] = ','.join(map(str, allowed)) if allowed else ''
    env['C07_NESTED'] = '1' if nested else ''
    if mutant:
        env['C07_MUTANT'] = '1'
    target = os.path.join(VERIF, 'fxv', 'ch', 'c07_driver_mut.py' if mutant else 'c07_driver.py')
    t0 = time.time()
    try:
        p = subprocess.run([sys.executable, '-m', 'crosshair', 'check', '--report_all', '--per_condition_timeout', str(timeout), target],
                           capture_output=True, text=True, env=env, timeout=timeout + 120)
    except subprocess.TimeoutExpired:
        return 'crosshair did not return within its budget', time.time() - t0
    return p.stdout + p.stderr, time.time() - t0


def _parse(out):
    if 'Confirmed over all paths' in out:
        return 'confirmed', None
    m = re.search(r'error: false when calling _n\w*\((.*)\)', out, re.S)
    if m:
        args = m.group(1)
        mm = re.search(r'codes\s*=\s*(\[[^\]]*\]).*values\s*=\s*(\[[^\]]*\])', args) or re.search(r'(\[[^\]]*\]),\s*(\[[^\]]*\])', args)
        if mm:
            return 'counterexample', (ast.literal_eval(mm.group(1)), ast.literal_eval(mm.group(2)))
        nums = re.findall(r'-?\d+', args)
        if len(nums) >= 5:
            return 'counterexample-nested', [int(n) for n in nums[:5]]
        return 'counterexample-unparsed', args
    if 'error:' in out:
        return 'error', out[-600:]
    return 'notconfirmed', out[-400:]


def run_case(key, twin=False):
    if key and key[0] == 'twin':
        return run_case(key[1], twin=True)
    from ..ch import c07_model as M
    if key[0] == 'table':
        return _table(M)
    if key[0] == 'real':
        return _real(M, key[1], key[2])
    if key[0] == 'real-nested':
        return _real_nested(M, key[1])
    if key[0] == 'twin-ch':
        out, dt = _crosshair(M.NAMES.index('AI'), 4, 400, mutant=True, allowed=[M.NAMES.index(n) for n in ('AI', 'A', 'U', 'UT')])
        st, info = _parse(out)
        if st.startswith('counterexample'):
            return violation(f'(expected) mutated driver without step-back fails on {info}', signature='twin', kind='twin', solver_s=dt)
        return ok(sample=dict(note='mutant not found', out=out[-300:]))
    first, maxlen = key[1], key[2]
    per = 240 if maxlen <= 3 else 1500
    if key[0] == 'ch-small4':
        per = 1500
        out, dt = _crosshair(first, 4, per, allowed=_alpha8(M), minlen=4, second=key[3])
    elif key[0] == 'ch-small':
        per = 500
        out, dt = _crosshair(first, maxlen + 1, per, allowed=_small_alphabet(M), minlen=maxlen, nested=True)
    else:
        out, dt = _crosshair(first, maxlen, per)
    st, info = _parse(out)
    name = M.NAMES[first] if first < M.NK else (f'scalar@{first - M.NK}' if first < M.NK + M.NS else f'identity@{first - M.NK - M.NS}')
    if st == 'confirmed':
        return ok(obligations=1, nontrivial=True, solver_s=dt, sample=dict(head=name, maxlen=maxlen, verdict='Confirmed over all paths', seconds=round(dt, 1)))
    if st == 'counterexample-nested':
        # rebuild the chain from the indices exactly as the harness does
        ip, iy, iz, v0, v1 = info
        small = _small_alphabet(M)
        van = [list(k) for k, v in M.TABLE.items() if v == [] and k[0] in small and k[1] in small]
        codes = [first, van[ip][0], van[ip][1], small[iy]] + ([small[iz]] if iz >= 0 else [])
        values = [v0, 1, 1, v1, 2][:len(codes)]
        st, info = 'counterexample', (codes, values)
    if st == 'counterexample':
        codes, values = info
        chain = [M.NAMES[c] if c < M.NK else (f'H{values[i]}@{c - M.NK}' if c < M.NK + M.NS else f'I@{c - M.NK - M.NS}') for i, c in enumerate(codes)]
        return violation(f'the reduction driver leaves a chain outside the documented normal form: {chain}', model={'codes': codes, 'values': values},
                         signature=f'c07-driver:{chain}', kind='driver', solver_s=dt)
    return inconclusive(f'CrossHair: {st}: {str(info)[:300]}', solver_s=dt)


def _table(M):
    bad = []
    for (a, b), exp in M.DOCUMENTED.items():
        got = M.TABLE_N.get((a, b))
        if got is None:
            bad.append(f'{a} @ {b} is not rewritten (documented pattern not detected)')
        elif exp is not None and got != exp:
            bad.append(f'{a} @ {b} is rewritten to {got}, expected {exp}')
    for a, b in M.MUST_NOT:
        if (a, b) in M.TABLE_N:
            bad.append(f'{a} @ {b} is rewritten to {M.TABLE_N[(a, b)]} by {M.FIRED[(a, b)]} although it is not a documented pattern')
    if bad:
        return violation('rule table: ' + '; '.join(bad), signature='c07-table:' + ';'.join(bad)[:200], kind='table')
    return ok(obligations=0, table_checks=len(M.DOCUMENTED) + len(M.MUST_NOT), nontrivial=True,
              sample=dict(rule_table={f'{a}@{b}': v for (a, b), v in M.TABLE_N.items()}, fired={f'{a}@{b}': v for (a, b), v in M.FIRED.items()}))


def _real_ops(M):
    import jax.numpy as jnp
    from furax._base.core import HomothetyOperator, IdentityOperator
    ops = {n: o for n, o in M.CAT.items()}
    return ops


def _real(M, first, maxlen):
    """All real chains whose first element is the `first`-th entry of (catalogue + scalar + identity)."""
    import jax.numpy as jnp
    from furax._base.core import CompositionOperator, HomothetyOperator, IdentityOperator
    names = M.NAMES + ['HOMO', 'ID']
    head = names[first]
    sids = sorted(M.STRUCT_OF)

    def instances(name):
        if name == 'HOMO':
            return [(M.NK + s, HomothetyOperator(jnp.array(2.0, jnp.float32), M.STRUCT_OF[s])) for s in sids]
        if name == 'ID':
            return [(M.NK + M.NS + s, IdentityOperator(M.STRUCT_OF[s])) for s in sids]
        return [(M.NAMES.index(name), M.CAT[name])]
    pool = [x for n in names for x in instances(n)]
    n_chains = n_reducible = 0
    for h in instances(head):
        for L in range(2, maxlen + 1):
            for rest in itertools.product(pool, repeat=L - 1):
                chain = (h,) + rest
                codes = [c for c, _ in chain]
                if not M.compatible(codes):
                    continue
                ops = [o for _, o in chain]
                n_chains += 1
                try:
                    red = CompositionOperator(list(ops)).reduce()
                except Exception as ex:  # noqa: BLE001
                    return violation(f'reduce() raises {type(ex).__name__} on the real chain {[names[c] if c < M.NK else c for c in codes]}: {str(ex)[:100]}',
                                     model={'codes': codes}, signature=f'c07-real-raises:{codes}', kind='real')
                out = red.operands if isinstance(red, CompositionOperator) else [red]
                kinds = [M.classify(o) for o in out]
                if kinds != [names[c] if c < M.NK else ('HOMO' if c < M.NK + M.NS else 'ID') for c in codes]:
                    n_reducible += 1
                # normal form on the REAL result
                problem = None
                if len(out) > 1 and 'ID' in kinds:
                    n_in_id = sum(1 for c in codes if c >= M.NK + M.NS)
                    if n_in_id:
                        problem = 'an identity factor survives'
                if kinds.count('HOMO') > 1:
                    problem = 'more than one scalar factor remains'
                for (a, b) in zip(out, out[1:]):
                    if M.real_pair(a, b) is not None:
                        problem = f'adjacent pair {M.classify(a)} @ {M.classify(b)} is still reducible'
                if 'HOMO' in kinds and len(out) > 1:
                    osz, isz = out[0].out_size(), out[-1].in_size()
                    if not ((kinds[0] == 'HOMO' and osz <= isz) or (kinds[-1] == 'HOMO' and isz <= osz)):
                        problem = f'the scalar factor is not on the side with fewer elements (out {osz}, in {isz}, kinds {kinds})'
                if problem:
                    return violation(f'real chain {[names[c] if c < M.NK else ("HOMO" if c < M.NK + M.NS else "ID") for c in codes]} reduces to {kinds}: {problem}',
                                     model={'codes': codes}, signature=f'c07-real:{problem[:40]}:{codes}', kind='real')
                # operands that only become pattern members (or identities) through their OWN reduce() must be seen by the chain-level
                # rules: wrapping an operand in a single-operand composition (whose reduce() is the operand itself), or inserting a
                # composition of two identities (whose reduce() is the identity), must not change the result
                input_kinds = [names[c] if c < M.NK else ('HOMO' if c < M.NK + M.NS else 'ID') for c in codes]
                if kinds != input_kinds and L <= 3:
                    variants = [(f'operand {p_} wrapped in a nested composition', ops[:p_] + [CompositionOperator([ops[p_]])] + ops[p_ + 1:]) for p_ in range(L)]
                    for p_ in range(1, L):
                        st_ = ops[p_].out_structure()
                        variants.append((f'a composition of two identities inserted at {p_}',
                                         ops[:p_] + [CompositionOperator([IdentityOperator(st_), IdentityOperator(st_)])] + ops[p_:]))
                    for what, vops in variants:
                        vred = CompositionOperator(list(vops)).reduce()
                        vout = vred.operands if isinstance(vred, CompositionOperator) else [vred]
                        vk = [M.classify(o) for o in vout]
                        rot = lambda ks: ['RotN' if k in ('Rot', 'RotF', 'RotN') else ('RotNT' if k in ('RotT', 'RotFT', 'RotNT') else k) for k in ks]  # noqa: E731
                        if rot(vk) != rot(kinds):
                            return violation(f'real chain {input_kinds} reduces to {kinds}, but with {what} it reduces to {vk}: an operand that simplifies '
                                             f'through its own reduce() is not seen by the chain-level rules', model={'codes': codes, 'variant': what},
                                             signature=f'c07-real-wrapped:{what.split(" ")[0]}', kind='real')
                # abstraction validation: the abstract model must predict the same kind sequence
                pred = M.drive(codes, [2] * len(codes))
                pk = []
                for o in pred:
                    pk.append('HOMO' if o.kind == M.HOMO else ('ID' if o.kind == M.IDEN else ('SUM' if o.kind == M.SUMK else (M.NAMES[o.kind] if o.kind >= 0 else '?'))))
                norm = lambda ks: [('RotF' if k in ('Rot',) else k) for k in ks]  # noqa: E731
                # rotations created by rules have no partner in the chain, while the catalogue's stand-in RotN has one (RotNT):
                # the comparison is therefore made modulo rotation kinds (and the identity that an exact cancellation leaves)
                ROTS = {'Rot', 'RotT', 'RotF', 'RotFT', 'RotN', 'RotNT', 'ID'}
                pk_, kinds_ = [k for k in pk if k not in ROTS], [k for k in kinds if k not in ROTS]
                if len(pk_) != len(kinds_) or any(a != b and not (a == '?' and b.startswith('NEW:')) for a, b in zip(pk_, kinds_)):
                    # a mismatch means the abstraction is wrong: harness error, not a violation
                    return inconclusive(f'abstract model predicts {pk} but the real reduce() gives {kinds} for {codes}')
    return ok(obligations=0, real_chains=n_chains, nontrivial=n_reducible > 0, sample=dict(head=head, real_chains=n_chains, rewritten=n_reducible, maxlen=maxlen))


def _real_nested(M, first):
    """Real chains X @ p @ q @ Y where p @ q is a pattern that vanishes: the neighbours become adjacent only after the rewrite."""
    import jax.numpy as jnp
    from furax._base.core import CompositionOperator, HomothetyOperator, IdentityOperator
    names = M.NAMES + ['HOMO', 'ID']
    sids = sorted(M.STRUCT_OF)

    def instances(name):
        if name == 'HOMO':
            return [(M.NK + s, HomothetyOperator(jnp.array(2.0, jnp.float32), M.STRUCT_OF[s])) for s in sids]
        if name == 'ID':
            return [(M.NK + M.NS + s, IdentityOperator(M.STRUCT_OF[s])) for s in sids]
        return [(M.NAMES.index(name), M.CAT[name])]
    pool = [x for n in names for x in instances(n)]
    vanishing = [(a, b) for (a, b), res in M.TABLE_N.items() if res == []]
    n_chains = n_rewritten = 0
    for x in instances(names[first]):
        for a, b in vanishing:
            for y in pool:
                chain = [x, (M.NAMES.index(a), M.CAT[a]), (M.NAMES.index(b), M.CAT[b]), y]
                for extra in ([], [pool[0]]):
                    ch = chain + [(c, o) for c, o in extra]
                    codes = [c for c, _ in ch]
                    if not M.compatible(codes):
                        continue
                    n_chains += 1
                    red = CompositionOperator([o for _, o in ch]).reduce()
                    out = red.operands if isinstance(red, CompositionOperator) else [red]
                    kinds = [M.classify(o) for o in out]
                    still = [f'{M.classify(p)} @ {M.classify(q)}' for p, q in zip(out, out[1:]) if M.real_pair(p, q) is not None]
                    if still or kinds.count('HOMO') > 1:
                        label = [names[c] if c < M.NK else ('HOMO' if c < M.NK + M.NS else 'ID') for c in codes]
                        return violation(f'real chain {label} reduces to {kinds}: ' + (f'adjacent pair {still[0]} is still reducible' if still else 'two scalar factors remain'),
                                         model={'codes': codes}, signature=f'c07-real-nested:{still[:1]}', kind='real-nested')
                    n_rewritten += 1
    return ok(obligations=0, real_chains=n_chains, nontrivial=n_chains > 0, sample=dict(head=names[first], nested_real_chains=n_chains))


def extra_coverage(results):
    return dict(real_chains_reduced=sum(r.get('real_chains', 0) for r in results),
                crosshair_runs_confirmed=sum(1 for r in results if r['status'] == 'ok' and isinstance(r['key'], (list, tuple)) and r['key'][0] in ('ch', 'ch-small', 'ch-small4')))


def replay(key, model, info):
    if key and key[0] == 'twin':
        return True, 'twin'
    key = tuple(key)
    from ..ch import c07_model as M
    kind = info.get('kind')
    if kind == 'table' or key[0] == 'table':
        r = _table(M)
        return r['status'] == 'violation', r.get('what', 'ok')
    if kind == 'real':
        r = _real(M, key[1], key[2])
        return r['status'] == 'violation', r.get('what', 'ok')
    if kind == 'real-nested':
        r = _real_nested(M, key[1])
        return r['status'] == 'violation', r.get('what', 'ok')
    codes, values = model.get('codes'), model.get('values')
    if codes is None:
        return False, 'no counterexample arguments'
    okk = M.fixpoint_impl(list(codes), list(values))
    if okk:
        return False, 'the counterexample does not fail outside CrossHair'
    # also on a chain of real operators where every code has a real instance
    import jax.numpy as jnp
    from furax._base.core import CompositionOperator, HomothetyOperator, IdentityOperator
    ops = []
    for c, v in zip(codes, values):
        if c < M.NK:
            ops.append(M.CAT[M.NAMES[c]])
        elif c < M.NK + M.NS:
            ops.append(HomothetyOperator(jnp.array(float(v), jnp.float32), M.STRUCT_OF[c - M.NK]))
        else:
            ops.append(IdentityOperator(M.STRUCT_OF[c - M.NK - M.NS]))
    red = CompositionOperator(ops).reduce()
    out = red.operands if isinstance(red, CompositionOperator) else [red]
    kinds = [M.classify(o) for o in out]
    still = [f'{M.classify(a)}@{M.classify(b)}' for a, b in zip(out, out[1:]) if M.real_pair(a, b) is not None]
    return True, f'abstract chain {codes} fails the normal form; real chain reduces to {kinds}' + (f' with reducible pairs {still}' if still else '')
