"""C15 - polarimetry operators realise their Mueller matrices (all angles, all Stokes inputs)."""
from __future__ import annotations

import itertools

import jax
import jax.numpy as jnp
import numpy as np

from .. import interp as E
from ..common import Decider, S, f64, model_tree, pairs, structs_equal, trees_close
from ..harness import inconclusive, ok, skipped, violation
from ..poly import Poly

ID = 'C15'
LEVEL = 'other'
TECHNIQUE = 'jaxpr-level symbolic execution + exact trig model (cos/sin as unit-circle atoms) + z3 QF_NRA against hand-written Mueller actions'
EXPLANATION = ('HWP, QU rotation (and transpose), linear polariser, their factory methods and chains are traced with symbolic '
               'angle arrays and symbolic Stokes input; cos/sin of integer multiples of angle atoms are expanded over atoms (C,S) '
               'with C^2+S^2=1, so a verdict holds for ALL real angles. The oracle is the Mueller action written in the harness.')
FUNCTIONS = ['HWPOperator.mv/create', 'QURotationOperator.mv/create/transpose', 'QURotationTransposeOperator.mv',
             'LinearPolarizerOperator.mv/create', 'QURotationRule', 'QURotationHWPRule', 'LinearPolarizerHWPRule',
             'CompositionOperator.reduce on polarimetry chains']
BOUNDS = {'quick': 'Stokes I/QU/IQU/IQUV; data shape (2,2); angle shapes (),(2,),(1,2),(2,1),(2,2); all chains over '
                   '{R(a),R(b).T,HWP} of length <= 3 (+ optional polariser on the left)',
          'thorough': 'same, chains of length <= 5'}
STUBS = []
ASSUMPTIONS = ['real arithmetic; cos/sin modelled exactly through the unit circle (onto, hence all real angles)',
               'angle arrays broadcastable to the data shape (larger broadcast shapes are outside the claim)']
RULE = 'case = (operator/identity/factory/chain, Stokes kind, angle shape); non-trivial = involves >= 1 angle atom or sign flip; distinct keys'
BUDGET = {'quick': 300, 'thorough': 1800}

KINDS = ['I', 'QU', 'IQU', 'IQUV']
ANG_SHAPES = [(), (2,), (1, 2), (2, 1), (2, 2)]
DATA = (2, 2)


def _struct(stokes):
    from furax.landscapes import StokesPyTree
    return StokesPyTree.class_for(stokes).structure_for(DATA, f64)


# ---- oracle: Mueller actions on dict comp -> object array --------------------------------------

def _cs2(angle, ctx):
    (atom,) = angle.atoms()
    assert angle == Poly.var(atom)
    ctx.trig[atom] = True
    C, Sn = Poly.var('C$' + atom), Poly.var('S$' + atom)
    return C * C - Sn * Sn, 2 * Sn * C


def o_rot(d, ang, ctx, sign=1):
    if 'q' not in d:
        return dict(d)
    a = np.broadcast_to(ang, DATA)
    out = dict(d)
    q = np.empty(DATA, dtype=object)
    u = np.empty(DATA, dtype=object)
    for idx in np.ndindex(*DATA):
        c, s = _cs2(a[idx], ctx)
        s = s * sign
        q[idx] = d['q'][idx] * c - d['u'][idx] * s
        u[idx] = d['q'][idx] * s + d['u'][idx] * c
    out['q'], out['u'] = q, u
    return out


def o_hwp(d):
    out = dict(d)
    for k in ('u', 'v'):
        if k in out:
            out[k] = -out[k]
    return out


def o_pol(d):
    half = 0.5
    if 'i' in d and 'q' in d:
        return (d['i'] + d['q']) * half
    if 'i' in d:
        return d['i'] * half
    return d['q'] * half


def _as_dict(tree):
    return {k: getattr(tree, k) for k in tree.stokes.lower()}


def _flat(o):
    if isinstance(o, dict):
        return [e for k in 'iquv' if k in o for e in o[k].reshape(-1)]
    return list(o.reshape(-1))


# ---- cases -------------------------------------------------------------------------------------

def cases(tier, seed):
    out = []
    for st in KINDS:
        for sh in ANG_SHAPES:
            for name in ('R', 'RT', 'RTlazy'):
                out.append(('op', st, sh, name))
            for name in ('RR', 'RRT', 'RHWP', 'RTHWP', 'RTT', 'Rinv'):
                out.append(('ident', st, sh, name))
            for which in ('hwp', 'pol', 'rot'):
                for red in (False, True):
                    out.append(('create', st, sh, which, red))
        out.append(('op', st, (), 'H'))
        out.append(('op', st, (), 'Pol'))
        out.append(('ident', st, (), 'PolHWP'))
        for which in ('hwp', 'pol'):
            out.append(('create', st, None, which, False))
        maxlen = 3 if tier == 'quick' else 5
        codes = ['a', 'b', 'A', 'B', 'H']  # R(a), R(b), R(a).T, R(b).T, HWP
        for n in range(2, maxlen + 1):
            for ch in itertools.product(codes, repeat=n):
                if st not in ('IQU', 'QU') and tier == 'quick' and n == 3:
                    continue
                for pol in (False, True):
                    if pol and n == maxlen and tier == 'quick':
                        continue
                    out.append(('chain', st, ''.join(ch), pol))
    return out


def twins():
    return [('op', 'IQU', (2,), 'R'), ('chain', 'IQU', 'aH', True)]


def _ops(st):
    from furax.operators.hwp import HWPOperator
    from furax.operators.polarizers import LinearPolarizerOperator
    from furax.operators.qu_rotations import QURotationOperator, QURotationTransposeOperator
    return HWPOperator, LinearPolarizerOperator, QURotationOperator, QURotationTransposeOperator


def _build(key, a, b):
    """Returns (real operator, oracle function d, ctx -> result) for symbolic/concrete angle arrays a, b."""
    H_, P_, R_, RT_ = _ops(None)
    kind, st = key[0], key[1]
    struct = _struct(st)
    if kind == 'op':
        name = key[3]
        if name == 'R':
            return R_(a, struct), lambda d, ang, ctx: o_rot(d, ang[0], ctx)
        if name == 'RT':
            return R_(a, struct).T, lambda d, ang, ctx: o_rot(d, ang[0], ctx, -1)
        if name == 'RTlazy':
            return RT_(R_(a, struct)), lambda d, ang, ctx: o_rot(d, ang[0], ctx, -1)
        if name == 'H':
            return H_(struct), lambda d, ang, ctx: o_hwp(d)
        if name == 'Pol':
            return P_(struct), lambda d, ang, ctx: o_pol(d)
    if kind == 'create':
        which, red = key[3], key[4]
        kw = {} if key[2] is None else {'angles': a}
        if which == 'hwp':
            op = H_.create(DATA, f64, st, **kw)
            orc = (lambda d, ang, ctx: o_hwp(d)) if key[2] is None else \
                (lambda d, ang, ctx: o_rot(o_hwp(o_rot(d, ang[0], ctx)), ang[0], ctx, -1))
        elif which == 'pol':
            op = P_.create(DATA, f64, st, **kw)
            orc = (lambda d, ang, ctx: o_pol(d)) if key[2] is None else (lambda d, ang, ctx: o_pol(o_rot(d, ang[0], ctx)))
        else:
            op = R_.create(DATA, f64, st, angles=a)
            orc = lambda d, ang, ctx: o_rot(d, ang[0], ctx)  # noqa: E731
        return (op.reduce() if red else op), orc
    if kind == 'chain':
        ops, steps = [], []
        for c in key[2]:
            ang = a if c in 'aA' else b
            k = 0 if c in 'aA' else 1
            if c in 'ab':
                ops.append(R_(ang, struct))
                steps.append(('rot', k, 1))
            elif c in 'AB':
                ops.append(R_(ang, struct).T)
                steps.append(('rot', k, -1))
            else:
                ops.append(H_(struct))
                steps.append(('hwp',))
        if key[3]:
            ops.insert(0, P_(struct))
            steps.insert(0, ('pol',))
        op = ops[0]
        for o in ops[1:]:
            op = op @ o

        def orc(d, ang, ctx):
            for s_ in reversed(steps):
                if s_[0] == 'rot':
                    d = o_rot(d, ang[s_[1]], ctx, s_[2])
                elif s_[0] == 'hwp':
                    d = o_hwp(d)
                else:
                    d = o_pol(d)
            return d
        return op, orc
    raise ValueError(key)


def _ident(key, a, b):
    """(lhs operator, rhs operator) for the operator identities."""
    H_, P_, R_, RT_ = _ops(None)
    st, name = key[1], key[3]
    struct = _struct(st)
    Ra, Rb, H, P = R_(a, struct), R_(b, struct), H_(struct), P_(struct)
    if name == 'RR':
        return Ra @ Rb, R_(a + b, struct)
    if name == 'RRT':
        return Ra @ Rb.T, R_(a - b, struct)
    if name == 'RHWP':
        return Ra @ H, H @ R_(-a, struct)
    if name == 'RTHWP':
        return Ra.T @ H, H @ Ra
    if name == 'RTT':
        return Ra.T.T, Ra
    if name == 'Rinv':
        return Ra.I, Ra.T
    if name == 'PolHWP':
        return P @ H, P
    raise ValueError(name)


def _angle_structs(key):
    sh = key[2] if key[0] != 'chain' else (2,)
    if sh is None:
        sh = ()
    return S(*sh), S(*sh)


def run_case(key, twin=False):
    if key and key[0] == 'twin':
        return run_case(key[1], twin=True)
    st = key[1]
    struct = _struct(st)
    sa, sb = _angle_structs(key)
    ctx = E.Ctx()
    dec = Decider()
    args = [('a', sa, 'sym'), ('b', sb, 'sym'), ('x', struct, 'sym')]
    x = E.symbols('x', struct)
    a, b = E.symbols('a', sa), E.symbols('b', sb)
    results = []
    if key[0] == 'ident':
        for red in (False, True):
            f = (lambda o: o.reduce()) if red else (lambda o: o)
            Lv, ls, _ = E.run(ctx, lambda a, b, x: f(_ident(key, a, b)[0]).mv(x), args)
            Rv, rs, _ = E.run(ctx, lambda a, b, x: f(_ident(key, a, b)[1]).mv(x), args)
            if not structs_equal(ls, rs):
                return violation(f'identity {key}: output structures differ', signature=f'c15:{key}', kind='structure')
            results.append(dec.decide(ctx, pairs(Lv, Rv, ctx)))
    else:
        variants = [False, True] if key[0] == 'chain' else [False]
        for red in variants:
            f = (lambda o: o.reduce()) if red else (lambda o: o)
            Lv, ls, _ = E.run(ctx, lambda a, b, x: f(_build(key, a, b)[0]).mv(x), args)
            _, orc = _build(key, jnp.zeros(sa.shape), jnp.zeros(sb.shape))
            want = orc(_as_dict(x), (a, b), ctx)
            if twin:
                want = o_hwp(want) if isinstance(want, dict) else want * 2
            got = _flat(_as_dict(Lv)) if hasattr(Lv, 'stokes') else _flat(E.to_obj(Lv) if not E.is_sym(Lv) else Lv)
            wf = _flat(want)
            if len(got) != len(wf):
                return violation(f'{key}: output has {len(got)} elements, Mueller action has {len(wf)}',
                                 signature=f'c15:{key}', kind='structure')
            results.append(dec.decide(ctx, list(zip(got, wf))))
    common = dict(prims=sorted(ctx.prims), **dec.stats())
    n = common.pop('obligations')
    if all(r.status == 'unsat' for r in results):
        return ok(obligations=n, nontrivial=bool(ctx.trig) or 'H' in repr(key) or 'Pol' in repr(key),
                  sample=dict(case=repr(key), verdict='unsat', angle_atoms=len(ctx.trig), smt_digest=results[0].digest), **common)
    if any(r.status == 'unknown' for r in results):
        return inconclusive('solver unknown: ' + ';'.join(r.reason for r in results), obligations=n, **common)
    bad = next(r for r in results if r.status == 'sat')
    return violation(f'Mueller action / identity fails for {key}', model=bad.model, signature=f'c15:{key}', kind='differs',
                     obligations=n, twin=twin, which=results.index(bad), **common)


# ---- replay: numeric Mueller actions on the real library ------------------------------------------

def _n_rot(d, ang, sign=1):
    if 'q' not in d:
        return dict(d)
    c, s = np.cos(2 * ang), sign * np.sin(2 * ang)
    out = dict(d)
    out['q'], out['u'] = d['q'] * c - d['u'] * s, d['q'] * s + d['u'] * c
    return out


def replay(key, model, info):
    twin = False
    if key and key[0] == 'twin':
        key, twin = key[1], True
    key = tuple(tuple(k) if isinstance(k, list) else k for k in key)
    st = key[1]
    struct = _struct(st)
    sa, sb = _angle_structs(key)
    a = jnp.asarray(model_tree(model, 'a', sa))
    b = jnp.asarray(model_tree(model, 'b', sb))
    x = model_tree(model, 'x', struct)
    red = bool(info.get('which', 0))
    f = (lambda o: o.reduce()) if red else (lambda o: o)
    if key[0] == 'ident':
        l, r = _ident(key, a, b)
        close, msg = trees_close(f(l).mv(x), f(r).mv(x))
        return (not close), f'{key}: {msg}'
    op, _ = _build(key, a, b)
    got = f(op).mv(x)
    d = {k: np.asarray(getattr(x, k)) for k in st.lower()}

    class Num:  # numeric twin of the oracle steps
        pass
    # re-run the oracle numerically by re-using the symbolic oracle's structure
    def n_orc(d):
        kind = key[0]
        if kind == 'op':
            return {'R': lambda: _n_rot(d, np.asarray(a)), 'RT': lambda: _n_rot(d, np.asarray(a), -1),
                    'RTlazy': lambda: _n_rot(d, np.asarray(a), -1), 'H': lambda: o_hwp(d), 'Pol': lambda: _n_pol(d)}[key[3]]()
        if kind == 'create':
            which = key[3]
            if which == 'hwp':
                return o_hwp(d) if key[2] is None else _n_rot(o_hwp(_n_rot(d, np.asarray(a))), np.asarray(a), -1)
            if which == 'pol':
                return _n_pol(d) if key[2] is None else _n_pol(_n_rot(d, np.asarray(a)))
            return _n_rot(d, np.asarray(a))
        steps = []
        for c in key[2]:
            steps.append(('rot', np.asarray(a) if c in 'aA' else np.asarray(b), 1 if c in 'ab' else -1) if c != 'H' else ('hwp',))
        if key[3]:
            steps.insert(0, ('pol',))
        for s_ in reversed(steps):
            d = _n_rot(d, s_[1], s_[2]) if s_[0] == 'rot' else (o_hwp(d) if s_[0] == 'hwp' else _n_pol(d))
        return d
    want = n_orc(d)
    if twin:
        want = o_hwp(want) if isinstance(want, dict) else want * 2
    gotd = {k: np.asarray(getattr(got, k)) for k in st.lower()} if hasattr(got, 'stokes') else np.asarray(got)
    if isinstance(want, dict) != isinstance(gotd, dict):
        return True, 'result kinds differ'
    close, msg = trees_close(gotd, want)
    return (not close), f'{key}: {msg}'


def _n_pol(d):
    if 'i' in d and 'q' in d:
        return 0.5 * (d['i'] + d['q'])
    return 0.5 * (d['i'] if 'i' in d else d['q'])
