"""C02 - operator arithmetic is matrix arithmetic, whatever the grouping; incompatible operands are rejected."""
from __future__ import annotations

import itertools
import random

import jax
import jax.numpy as jnp
import numpy as np

from .. import interp as E
from ..catalogue import CONSTS, FAM, Builder, show
from ..common import Decider, S, describe_struct, model_tree, pairs, structs_equal, trees_close
from ..harness import inconclusive, ok, skipped, violation
from ..poly import Poly
from ..programs import build_concrete, params_from_model, real_solver
from .c01 import _pinv_param_atoms, _tuplify

ID = 'C02'
LEVEL = 'other'
TECHNIQUE = 'jaxpr-level symbolic execution of the constructed expression vs. a recursive oracle that only calls the leaf operands\' mv + z3; legality of every operand pair enumerated; complex-valued operands exactly in Q(i)'
EXPLANATION = ('Every arithmetic expression tree (@ + - unary +/- k* *k /k over plain operators, compositions, sums, identities, '
               'scalar operators, lazy/closed-form inverses and transposes of present operands; scalars as Python/NumPy/JAX kinds and '
               'as a symbolic traced value) is built with the real dunder methods inside the trace and compared by z3, for all '
               'parameter values, scalars and inputs, with the denotation computed by the harness from the leaf operands\' own mv '
               '(function composition, +, -, scalar multiplication). Construction-time shortcuts are therefore checked against plain '
               'matrix arithmetic. Rejection: every ordered pair of a mixed-structure catalogue x {@,+,-} and block constructors '
               'must raise an error exactly when the declared structures do not match (concrete outcomes).')
FUNCTIONS = ['AbstractLinearOperator.__matmul__/__add__/__sub__/__mul__/__rmul__/__truediv__/__neg__/__pos__', 'CompositionOperator.__matmul__/__rmatmul__',
             'AdditionOperator.__add__/__radd__/__neg__', 'IdentityOperator.__matmul__', 'HomothetyOperator.__matmul__', 'AbstractLazyInverseOperator.__matmul__',
             'structure checks in all of them']
BOUNDS = {'quick': 'operands: 14 kinds on (3,) vectors; all binary trees over operand pairs x {@,+,-}, seeded 350 three-operand trees in both '
                   'parenthesisations, unary/scalar wrappers with 8 concrete scalar kinds and a symbolic scalar; rejection: 16 operators of 5 structures, all ordered pairs',
          'thorough': 'all three-operand trees, seeded four-operand trees'}
BOUNDS['quick'] += '; complex-valued operands (exact in Q(i)): + - @ unary minus, k* and *k with a symbolic complex scalar over 6 square and 3 non-square leaves (130 expressions)'
STUBS = ['lineax.linear_solve -> contract stub (lazy inverse only of the concrete SPD operand)']
ASSUMPTIONS = ['exact real arithmetic (complex-valued family: exact in Q(i))', 'division: k != 0', 'NumPy arrays as LEFT operand of * are outside the claim (NumPy dispatch takes over)']
RULE = 'case = expression tree; non-trivial = the tree has >= 1 binary node or scalar factor and symbolic atoms; distinct keys'
BUDGET = {'quick': 400, 'thorough': 2400}


def L(n, k=0):
    return ('leaf', n, k)


A, B, D, K, K2, I3, SPD = L('A'), L('B'), L('D'), L('k'), L('k2'), L('I3'), L('Spd')
OPERANDS = [A, B, D, K, K2, I3, SPD, ('I', SPD), ('I', D), ('I', K), ('T', A), ('@', A, B), ('+', A, D), ('+', B, ('T', A)), ('@', D, A),
            ('@', ('I', SPD), B), ('kmul', A, 0), ('neg', B)]
ATOMIC = ('leaf',)


def cases(tier, seed):
    rnd = random.Random(f'c02-{seed}')
    from .. import cplx
    out = [('cplx', c) for c in cplx.arith_cases()]
    for a, b in itertools.product(OPERANDS, repeat=2):
        for o in '@+-':
            out.append(('arith', (o, a, b)))
    for a in OPERANDS:
        out += [('arith', ('neg', a)), ('arith', ('pos', a)), ('arith', ('kmul', a, 1)), ('arith', ('mulk', a, 1)), ('arith', ('divk', a, 1)),
                ('arith', ('neg', ('neg', a))), ('arith', ('-', a, a))]
        for c in range(len(CONSTS) - 1):
            out += [('arith', ('cmul', a, c)), ('arith', ('rcmul', a, c))]
            if c != 7:  # 1/3 is not dyadic: furax's eager 1/k would be rounded
                out.append(('arith', ('cdiv', a, c)))
    small = OPERANDS[:12]
    trip = []
    for a, b, c in itertools.product(small, repeat=3):
        for o1, o2 in itertools.product('@+-', repeat=2):
            trip.append(('arith', (o1, (o2, a, b), c)))
            trip.append(('arith', (o1, a, (o2, b, c))))
    rnd.shuffle(trip)
    out += trip if tier == 'thorough' else trip[:350]
    if tier == 'thorough':
        quad = []
        for _ in range(1500):
            a, b, c, d = (rnd.choice(small) for _ in range(4))
            o1, o2, o3 = (rnd.choice('@+-') for _ in range(3))
            quad.append(('arith', rnd.choice([(o1, (o2, a, b), (o3, c, d)), (o1, a, (o2, b, (o3, c, d))), (o1, (o2, (o3, a, b), c), d)])))
        out += quad
    # operands used more than once: building one expression must not change an operand that another expression also uses
    # (identical sub-expressions are the same Python object, exactly as `AB = A @ B; AB @ C + AB @ D` for a user)
    shared = [('@', A, B), ('kmul', A, 0), ('@', D, A), ('+', A, D), ('neg', B), ('@', ('I', SPD), B), ('@', K, A)]
    others = [A, B, D, K, ('@', B, D), ('+', B, D)]
    for X in shared:
        for Y, Z in itertools.product(others, repeat=2):
            if Y is Z and tier == 'quick':
                pass
            out.append(('arith', ('-', ('@', X, Y), X)))
            out.append(('arith', ('+', X, ('@', X, Y))))
            out.append(('arith', ('+', ('@', X, Y), ('@', X, Z))))
            out.append(('arith', ('-', ('+', X, Y), ('+', X, Z))))
            out.append(('arith', ('@', ('@', X, Y), ('+', X, Z))))
            out.append(('arith', ('+', ('@', Y, X), ('@', X, Z))))
    # an operator next to ITS OWN lazy transpose / inverse (the same Python object inside the wrapper): only A.I may be absorbed
    for n in ('P', 'Pa', 'U', 'Mk', 'Sl', 'Bd', 'W', 'V', 'Pp', 'Pg', 'Rs', 'A', 'D', 'Tz'):
        X = L(n)
        out += [('arith', ('@', X, ('T', X))), ('arith', ('@', ('T', X), X)), ('arith', ('@', ('T', X), ('T', ('T', X)))),
                ('arith', ('+', ('@', X, ('T', X)), ('@', X, ('T', X)))), ('arith', ('@', ('@', X, ('T', X)), X)), ('arith', ('@', X, ('@', ('T', X), X)))]
    out += [('reject',), ('scalars',)]
    seen, res = set(), []
    for k in out:
        if k not in seen:
            seen.add(k)
            res.append(k)
    return res


def twins():
    return [('arith', ('-', A, ('+', B, D))), ('arith', ('-', ('@', K, ('@', A, K2)), D))]


def denote(e, bld, table_build, x, consts=CONSTS, flip=False):
    """Harness's own denotation: only leaf-like operands' mv are called."""
    tag = e[0]
    add = lambda u, v: jax.tree.map(lambda a, b: a + b, u, v)  # noqa: E731
    scale = lambda c, u: jax.tree.map(lambda a: c * a, u)  # noqa: E731
    if tag == 'leaf' or (tag in ('I', 'T') and e[1][0] == 'leaf'):
        return table_build(e).mv(x)
    if tag in ('I', 'T'):
        return table_build(e).mv(x)  # inverse / transpose of a composite operand: an operand kind of its own
    if tag == '@':
        y = x
        for c in reversed(e[1:]):
            y = denote(c, bld, table_build, y, consts, flip)
        return y
    if tag == '+':
        return add(denote(e[1], bld, table_build, x, consts, flip), denote(e[2], bld, table_build, x, consts, flip))
    if tag == '-':
        r = denote(e[2], bld, table_build, x, consts, flip)
        return add(denote(e[1], bld, table_build, x, consts, flip), r if flip else scale(-1, r))
    if tag == 'neg':
        return scale(-1, denote(e[1], bld, table_build, x, consts, flip))
    if tag == 'pos':
        return denote(e[1], bld, table_build, x, consts, flip)
    if tag in ('kmul', 'mulk'):
        return scale(table_build(('scalar', e[2])), denote(e[1], bld, table_build, x, consts, flip))
    if tag == 'divk':
        return scale(1 / table_build(('scalar', e[2])), denote(e[1], bld, table_build, x, consts, flip))
    if tag in ('cmul', 'rcmul'):
        return scale(float(consts[e[2]]), denote(e[1], bld, table_build, x, consts, flip))
    if tag == 'cdiv':
        return scale(1.0 / float(consts[e[2]]), denote(e[1], bld, table_build, x, consts, flip))
    raise ValueError(tag)


class _Parts:
    """Builds leaf-like operands (and scalars) of an expression from the parameter list, memoised per trace."""

    def __init__(self, bld, e, params):
        self.bld, self.e, self.params = bld, e, params
        self.memo = {}
        self.scalars = {}
        for (kind, shape, flags, label), p in zip(bld.layout(e), params):
            if kind == 'scalar':
                self.scalars[int(label[1:])] = p

    def __call__(self, sub):
        if sub[0] == 'scalar':
            return self.scalars[sub[1]]
        if sub not in self.memo:
            self.memo[sub] = self.bld.build_part(self.e, self.params, sub)
        return self.memo[sub]


def run_case(key, twin=False):
    if key and key[0] == 'twin':
        return run_case(key[1], twin=True)
    if key[0] == 'reject':
        return _reject()
    if key[0] == 'scalars':
        return _scalars()
    if key[0] == 'cplx':
        from .. import cplx
        return cplx.check_arith(_tuplify(key[1]), twin)
    _, e = key
    fam = 'vec'
    bld = Builder(fam)
    try:
        op0 = build_concrete(fam, e)
        xin, yout = op0.in_structure(), op0.out_structure()
    except ValueError as ex:
        return skipped(f'ill-typed: {str(ex)[:60]}')
    ctx = E.Ctx()
    dec = Decider()
    pst = bld.structs(e)
    got, gs, _ = E.run(ctx, lambda p, x: bld.build(e, list(p)).mv(x), [('p', pst, 'sym'), ('x', xin, 'sym')])
    want, ws, _ = E.run(ctx, lambda p, x: denote(e, bld, _Parts(bld, e, list(p)), x, flip=twin), [('p', pst, 'sym'), ('x', xin, 'sym')])
    if not structs_equal(gs, ws) or not structs_equal(gs, yout):
        return violation(f'structures: built {describe_struct(gs)}, denotation {describe_struct(ws)}, declared {describe_struct(yout)} for {show(e)}',
                         signature=f'c02-struct:{show(e)}', kind='struct')
    assume = bld.assumptions(e)
    res = dec.decide(ctx, pairs(got, want, ctx), assumptions=assume)
    common = dict(prims=sorted(ctx.prims), **dec.stats())
    nob = common.pop('obligations')
    if res.status == 'unsat':
        return ok(obligations=nob, nontrivial=e[0] != 'leaf', sample=dict(expression=show(e), built=type(op0).__name__, verdict='unsat', smt_digest=res.digest), **common)
    if res.status == 'unknown':
        return inconclusive('solver unknown', obligations=nob, **common)
    sig = f'c02-arith:{show(e)}'
    patoms = _pinv_param_atoms(fam, e)
    if patoms and not twin:
        res2 = dec.decide(ctx, pairs(got, want, ctx), assumptions=assume + [(a, 'ne', Poly()) for a in patoms])
        if res2.status == 'unsat':
            sig = 'pinv-collapse'
        elif res2.status == 'unknown':
            return inconclusive(f'expression contains a diagonal pseudo-inverse next to its operand; side-condition query: {res2.reason}', **common)
    return violation(f'{show(e)} does not denote the matrix expression of its operands', model=res.model, signature=sig, kind='arith', twin=twin,
                     obligations=nob, **{k: v for k, v in common.items()})


def _pool():
    from furax import MoveAxisOperator, RavelOperator
    from furax._base.blocks import BlockColumnOperator, BlockDiagonalOperator, BlockRowOperator
    from furax._base.core import HomothetyOperator, IdentityOperator
    from furax._base.dense import DenseBlockDiagonalOperator
    from furax._base.diagonal import DiagonalOperator
    from furax._base.indices import IndexOperator
    s3, s2, s23, s3f = S(3), S(2), S(2, 3), S(3, dtype=jnp.float32)
    tree = {'a': S(3), 'b': S(2)}
    d = lambda sh, st: DenseBlockDiagonalOperator(jnp.ones(sh), st, 'ij,j->i')  # noqa: E731
    ops = {
        'I3': IdentityOperator(s3), 'I2': IdentityOperator(s2), 'I23': IdentityOperator(s23), 'I3f32': IdentityOperator(s3f), 'Itree': IdentityOperator(tree),
        'k3': HomothetyOperator(2.0, s3), 'k2': HomothetyOperator(2.0, s2), 'k23': HomothetyOperator(0.5, s23), 'k3f32': HomothetyOperator(2.0, s3f), 'ktree': HomothetyOperator(2.0, tree),
        'A33': d((3, 3), s3), 'W23': d((2, 3), s3), 'V32': d((3, 2), s2), 'D3': DiagonalOperator(jnp.ones(3), in_structure=s3),
        'Rv': RavelOperator(in_structure=s23), 'P': IndexOperator(jnp.array([0, 2]), in_structure=s3),
    }
    ops['A33+D3'] = ops['A33'] + ops['D3']
    ops['W23@A33'] = ops['W23'] @ ops['A33']
    ops['D3.I'] = ops['D3'].I
    ops['A33.T'] = ops['A33'].T
    return ops


def _reject():
    ops = _pool()
    bad = []
    n = 0
    import operator as opm
    for (na, a), (nb, b) in itertools.product(ops.items(), repeat=2):
        for sym, f in (('@', opm.matmul), ('+', opm.add), ('-', opm.sub)):
            n += 1
            if sym == '@':
                legal = structs_equal(a.in_structure(), b.out_structure())
            else:
                legal = structs_equal(a.in_structure(), b.in_structure()) and structs_equal(a.out_structure(), b.out_structure())
            try:
                r = f(a, b)
                outcome = 'ok'
            except Exception as ex:  # noqa: BLE001  (the statement says "rejected with an error": any exception is a rejection)
                outcome = type(ex).__name__
            if legal and outcome != 'ok':
                bad.append(f'{na} {sym} {nb}: compatible but {outcome}')
            elif not legal and outcome == 'ok':
                bad.append(f'{na} {sym} {nb}: incompatible structures but ' + ('an operator is returned' if outcome == 'ok' else outcome))
            elif legal:
                ins = b.in_structure()
                outs = a.out_structure()
                if not structs_equal(r.in_structure(), ins) or not structs_equal(r.out_structure(), outs):
                    bad.append(f'{na} {sym} {nb}: result has wrong structures')
    if bad:
        uniq = sorted(set(b.split(':')[1] for b in bad))
        return violation(f'{len(bad)} operand pairs mis-handled, e.g. ' + '; '.join(bad[:6]), signature='c02-reject:' + '|'.join(sorted(bad))[:400],
                         kind='reject', n_bad=len(bad), examples=bad[:40])
    return ok(obligations=n, nontrivial=True, sample=dict(case='rejection of incompatible operands', pairs_times_ops=n))


def _scalars():
    ops = _pool()
    a = ops['A33']
    bad = []
    for k in ([1.0, 2.0], jnp.ones(2), jnp.ones((1,)), jnp.ones((1, 1)), (2.0,)):
        for name, f in (('k*A', lambda: k * a), ('A*k', lambda: a * k), ('A/k', lambda: a / k)):
            if name == 'k*A' and isinstance(k, np.ndarray):
                continue  # NumPy's own dispatch: outside the claim
            try:
                f()
                bad.append(f'{name} accepted non-scalar {type(k).__name__}{np.shape(k)}')
            except Exception:  # noqa: BLE001  (any error is a rejection)
                pass
    try:
        a(a)
        bad.append('A(A) accepted')
    except Exception:  # noqa: BLE001
        pass
    if bad:
        return violation('; '.join(bad), signature='c02-scalars:' + ';'.join(bad)[:200], kind='scalars')
    return ok(obligations=14, nontrivial=True, sample=dict(case='non-scalar factors rejected'))


def replay(key, model, info):
    twin = False
    if key and key[0] == 'twin':
        key, twin = key[1], True
    key = _tuplify(key)
    if key[0] in ('reject', 'scalars'):
        r = run_case(key)
        return r['status'] == 'violation', r.get('what', 'ok')
    if key[0] == 'cplx':
        from .. import cplx
        return cplx.replay_arith(key[1], model, twin)
    _, e = key
    fam = 'vec'
    bld = Builder(fam)
    if info.get('kind') == 'struct':
        r = run_case(key)
        return r['status'] == 'violation', r.get('what', 'ok')
    with real_solver():
        params = params_from_model(fam, e, model)
        op = bld.build(e, params)
        x = model_tree(model, 'x', op.in_structure())
        want = denote(e, bld, _Parts(bld, e, params), x, flip=twin)
        from ..catalogue import has_tag
        close, msg = trees_close(op.mv(x), want, rtol=1e-4 if has_tag(e, ('I',)) else 1e-7)
    return (not close), f'{show(e)} (built as {type(op).__name__}) vs matrix arithmetic: {msg}'
