"""C06 - inverses invert (closed forms for all parameter values; lazy inverse under the solver contract)."""
from __future__ import annotations

import itertools

import jax
import jax.numpy as jnp
import numpy as np

from .. import interp as E
from ..catalogue import FAM, Builder, show
from ..common import Decider, S, describe_struct, f64, model_tree, pairs, structs_equal, trees_close
from ..harness import inconclusive, ok, skipped, violation
from ..poly import Poly
from ..programs import build_concrete, params_from_model, real_solver, sym_eval
from .c01 import _tuplify

ID = 'C06'
LEVEL = 'other'
TECHNIQUE = 'jaxpr-level symbolic execution of A.I.mv / A.mv + z3 (guarded-division atoms decide NaN/Inf freedom; Penrose identities for the diagonal pseudo-inverse; contract stub for the iterative inverse)'
EXPLANATION = ('For operators with a closed-form inverse all parameters are symbolic: z3 decides A.I(A x) = x = A(A.I x) under the '
               'documented side condition (scalar/diagonal entries != 0), the Penrose identities D D+ D = D and D+ D D+ = D+ with NO '
               'condition on d (1/d is a fresh atom q constrained only where d != 0, so any use of 1/0 makes the query sat), and '
               'A.I.I == A. Lazy inverses use the contract stub of lineax.linear_solve: A.I(A x) = x, A(A.I y) = y and '
               'InverseOperator(A).operator denotes A. Refusal of non-square operators is a concrete outcome.')
FUNCTIONS = ['HomothetyOperator.inverse', 'DiagonalOperator.inverse', 'DiagonalInverseOperator.diagonal/inverse', 'BlockDiagonalOperator.inverse',
             'MoveAxisOperator.inverse', 'orthogonal() (QURotationOperator, IdentityOperator, AbstractLazyInverseOrthogonalOperator)',
             'InverseOperator.__init__/mv', 'AbstractLazyInverseOperator.inverse', 'AbstractLinearOperator.inverse']
BOUNDS = {'quick': 'shapes (3,), (2,3), Stokes IQU(2,), pytree; every closed-form inverse of the catalogue, block diagonals of arity 2 over 4 containers, '
                   'concrete SPD 3x3 and positive-diagonal products for the lazy inverse', 'thorough': 'same + arity-3 blocks and nested inverses'}
STUBS = ['lineax.linear_solve -> contract stub A.mv(z) == b (functional). Convergence of CG to the configured tolerance is NOT decided.']
ASSUMPTIONS = ['real arithmetic', 'scalars != 0 and (for two-sided inverse identities) diagonal entries != 0', 'lazy inverse: the solver returns a solution',
               'as_matrix() of an inverse (jnp.linalg.inv: LU primitives, not encodable) is not decided by the solver: it is compared concretely with the matrix inverse for 34 operators (rotations and their transposes on QU/IQU/IQUV at three angle pairs, HWP, SPD and non-symmetric dense, diagonal, scalar (float, integer-typed, Python int), block diagonal, move-axis), together with the round trips A.I(A x) = x = A(A.I x) on a concrete vector']
RULE = 'case = (family, operator expression, identity); non-trivial = has symbolic parameters or uses the stub; distinct keys'
BUDGET = {'quick': 300, 'thorough': 1200}


def L(n, k=0):
    return ('leaf', n, k)


CLOSED = {
    'vec': [L('k'), L('D'), L('I3'), ('kmul', L('D'), 0), ('@', L('k'), L('k2'))],
    'mat': [L('k'), L('D0'), L('D1'), L('D2'), L('Mv'), L('MvI'), L('Mn'), L('I'), ('@', L('MvI'), L('Mv'))],
    'stokes': [L('R'), L('Rs'), ('T', L('R')), L('Id'), L('k'), L('Dq')],
    'tree': [L('k'), L('D'), L('I')],
}
LAZY = {
    'vec': [L('Spd'), L('Spd2'), ('@', L('Spd'), L('Spd2')), ('+', L('Spd'), L('Spd2')), ('lazy', L('Dp')), ('@', L('Dp'), L('Dp', 1)),
            ('+', L('Spd'), L('Dp')), ('diag', 'list', (L('Spd'), L('Spd2')))],
    'stokes': [L('H')],
}
DIAGS = {'vec': ['D'], 'mat': ['D0', 'D1', 'D2'], 'stokes': ['Dq'], 'tree': ['D']}


def cases(tier, seed):
    out = []
    for fam, xs in CLOSED.items():
        for x in xs:
            out.append(('closed', fam, x))
    for fam, names in DIAGS.items():
        for n in names:
            out.append(('penrose', fam, L(n)))
    conts = ['list', 'tuple', 'dict', 'nest']
    for fam in ('vec', 'mat', 'tree'):
        pool = [x for x in CLOSED[fam] if x[0] == 'leaf'][:4]
        for c in conts:
            for a, b in itertools.product(pool, repeat=2):
                a2 = ('leaf', a[1], 0)
                b2 = ('leaf', b[1], 1)
                out.append(('closed', fam, ('diag', c, (a2, b2))))
        out.append(('closed', fam, ('diag', 'list', tuple(('leaf', x[1], i) for i, x in enumerate((pool * 3)[:3])))))
        out.append(('closed', fam, ('diag', 'dict', tuple(('leaf', x[1], i) for i, x in enumerate((pool * 3)[1:4])))))
        if tier == 'thorough':
            for a, b, d in itertools.product(pool, repeat=3):
                out.append(('closed', fam, ('diag', 'nest', (('leaf', a[1], 0), ('leaf', b[1], 1), ('leaf', d[1], 2)))))
    for fam, xs in LAZY.items():
        for x in xs:
            out.append(('lazy', fam, x))
    out.append(('refuse',))
    out += [('dense-inverse', n) for n in _dense_inverse_ops()]
    out += [('configured-tolerance', order) for order in ('solver-outside', 'solver-inside', 'single')]
    return out


def twins():
    return [('closed', 'vec', L('k')), ('penrose', 'vec', L('D')), ('lazy', 'vec', L('Spd'))]


def _expr(x):
    """Catalogue expression of the operand (the 'lazy' wrapper forces InverseOperator on a closed-form operand)."""
    if x[0] == 'lazy':
        return x[1], True
    return x, False


def _inv(op, force_lazy):
    from furax._base.core import InverseOperator
    return InverseOperator(op) if force_lazy else op.I


def run_case(key, twin=False):
    if key and key[0] == 'twin':
        return run_case(key[1], twin=True)
    if key[0] == 'refuse':
        return _refuse()
    if key[0] == 'dense-inverse':
        return _dense_inverse(key[1])
    if key[0] == 'configured-tolerance':
        return _configured(key[1])
    mode, fam, x0 = key
    e, force = _expr(x0)
    bld = Builder(fam)
    try:
        op0 = build_concrete(fam, e)
        xin = op0.in_structure()
        if not structs_equal(xin, op0.out_structure()):
            return skipped('not square')
        inv0 = _inv(op0, force)
    except Exception as ex:  # noqa: BLE001
        return violation(f'.I of {show(e)} raises {type(ex).__name__}: {str(ex)[:120]}', signature=f'c06-I-raises:{fam}:{show(e)}', kind='raises')
    if not structs_equal(inv0.in_structure(), xin) or not structs_equal(inv0.out_structure(), xin):
        return violation(f'.I of {show(e)} has structures in={describe_struct(inv0.in_structure())} out={describe_struct(inv0.out_structure())}',
                         signature=f'c06-I-struct:{fam}:{show(e)}', kind='struct')
    ctx = E.Ctx()
    dec = Decider()
    x = E.symbols('x', xin)
    nz = []
    for i, (_, shape, flags, label) in enumerate(bld.layout(e)):
        for a in E.sym_array(f'p{i}', shape).reshape(-1):
            if 'pos' in flags:
                nz.append((a, 'gt', Poly()))
            elif label.split('#')[0] not in ('R', 'R2', 'Rs'):
                nz.append((a, 'ne', Poly()))
    res = []
    scale = 2 if twin else 1
    sc = lambda t: jax.tree.map(lambda l: l * scale, t)  # noqa: E731
    if mode == 'penrose':
        a, _ = sym_eval(ctx, fam, e, lambda op, x: op.mv(sc(op.I.mv(op.mv(x)))), xin)
        b, _ = sym_eval(ctx, fam, e, lambda op, x: op.mv(x), xin)
        res.append(('D D+ D = D (no condition on d)', dec.decide(ctx, pairs(a, b, ctx))))
        c, _ = sym_eval(ctx, fam, e, lambda op, x: op.I.mv(op.mv(op.I.mv(x))), xin)
        d, _ = sym_eval(ctx, fam, e, lambda op, x: op.I.mv(x), xin)
        res.append(('D+ D D+ = D+ (no condition on d)', dec.decide(ctx, pairs(c, d, ctx))))
        # symmetric projectors: (D D+) and (D+ D) are the same diagonal 0/1 map
        f, _ = sym_eval(ctx, fam, e, lambda op, x: op.mv(op.I.mv(x)), xin)
        g, _ = sym_eval(ctx, fam, e, lambda op, x: op.I.mv(op.mv(x)), xin)
        res.append(('D D+ = D+ D', dec.decide(ctx, pairs(f, g, ctx))))
        res.append(('D+ D x = x when d != 0', dec.decide(ctx, pairs(g, x, ctx), assumptions=nz)))
    else:
        a, _ = sym_eval(ctx, fam, e, lambda op, x: _inv(op, force).mv(sc(op.mv(x))), xin)
        b, _ = sym_eval(ctx, fam, e, lambda op, x: op.mv(_inv(op, force).mv(x)), xin)
        res.append(('A.I(A x) = x', dec.decide(ctx, pairs(a, x, ctx), assumptions=nz)))
        res.append(('A(A.I x) = x', dec.decide(ctx, pairs(b, x, ctx), assumptions=nz)))
        c, _ = sym_eval(ctx, fam, e, lambda op, x: _inv(op, force).I.mv(x), xin)
        d, _ = sym_eval(ctx, fam, e, lambda op, x: op.mv(x), xin)
        res.append(('A.I.I = A', dec.decide(ctx, pairs(c, d, ctx), assumptions=nz)))
        if mode == 'lazy':
            from furax._base.core import AbstractLazyInverseOperator
            if isinstance(inv0, AbstractLazyInverseOperator):
                g, _ = sym_eval(ctx, fam, e, lambda op, x: _inv(op, force).operator.mv(x), xin)
                res.append(('operand handed to the solver denotes A', dec.decide(ctx, pairs(g, d, ctx), assumptions=nz)))
            reach = dec.decide(ctx, None, assumptions=nz, goal=lambda enc: __import__('z3').BoolVal(True))
            if reach.status != 'sat':
                return inconclusive('stub assumptions are not satisfiable (vacuous)', **dec.stats())
            dec.ok += 1  # the reachability witness is expected to be sat
    common = dict(prims=sorted(ctx.prims), stub_solves=ctx.stub_solves, **dec.stats())
    nob = common.pop('obligations')
    bad = [(n, r) for n, r in res if r.status != 'unsat']
    if not bad:
        return ok(obligations=nob, nontrivial=(len(bld.layout(e)) > 0 or ctx.stub_solves > 0),
                  sample=dict(case=f'{mode}: {show(e)} [{fam}]', inverse=type(inv0).__name__, stub_solves=ctx.stub_solves, verdict='unsat'), **common)
    if any(r.status == 'unknown' for _, r in bad):
        return inconclusive('solver unknown: ' + bad[0][0], obligations=nob, **common)
    n, r = bad[0]
    return violation(f'{n} fails for {show(e)} [{fam}, {mode}]', model=r.model, signature=f'c06-{n}:{fam}:{show(e)}', kind=n, twin=twin, obligations=nob, **common)


def _dense_inverse_ops():
    """Concrete complement (no solver: jnp.linalg.inv / solve lower to LU / Cholesky primitives that are not encoded):
    as_matrix() of the inverse is the matrix inverse, for closed-form, orthogonal and lazy inverses, several parameter values."""
    from furax import MoveAxisOperator
    from furax._base.blocks import BlockDiagonalOperator
    from furax._base.core import HomothetyOperator, InverseOperator
    from furax._base.dense import DenseBlockDiagonalOperator as Dense
    from furax._base.diagonal import DiagonalOperator
    from furax.landscapes import StokesPyTree
    from furax.operators.hwp import HWPOperator
    from furax.operators.qu_rotations import QURotationOperator
    spd = jnp.array([[4., 1, 0], [1, 3, 1], [0, 1, 2]])
    nsym = jnp.array([[2., 1, 0], [0, 1, 1], [0.5, 0, 1]])
    out = {}
    for st in ('QU', 'IQU', 'IQUV'):
        stru = StokesPyTree.class_for(st).structure_for((2,), f64)
        for k, ang in enumerate(([0.2, 1.1], [-2.5, 0.7], [3.0, 1.6])):
            out[f'rotation {st} #{k}'] = (lambda stru=stru, ang=ang: QURotationOperator(jnp.array(ang), stru))
            out[f'rotation.T {st} #{k}'] = (lambda stru=stru, ang=ang: QURotationOperator(jnp.array(ang), stru).T)
        out[f'hwp {st}'] = (lambda stru=stru: HWPOperator(stru))
    out['dense spd (lazy)'] = lambda: Dense(spd, S(3), 'ij,j->i')
    out['dense non-symmetric (lazy)'] = lambda: Dense(nsym, S(3), 'ij,j->i')
    out['InverseOperator(spd)'] = lambda: InverseOperator(Dense(spd, S(3), 'ij,j->i'))
    out['diagonal'] = lambda: DiagonalOperator(jnp.array([2., -0.5, 4.]), in_structure=S(3))
    out['diagonal on a matrix'] = lambda: DiagonalOperator(jnp.array([2., -0.5]), axis_destination=0, in_structure=S(2, 3))
    out['scalar'] = lambda: HomothetyOperator(jnp.array(-2.5), S(3))
    # scalar operators whose value is integer-typed (what `2 * A` builds from a Python int), a Python int, a negative int
    from furax._base.core import IdentityOperator
    out['scalar int array'] = lambda: HomothetyOperator(jnp.asarray(3), S(3))
    out['scalar python int'] = lambda: HomothetyOperator(2, S(3))
    out['2 * identity, reduced'] = lambda: (2 * IdentityOperator(S(3))).reduce()
    out['-4 * identity on a matrix, reduced'] = lambda: (-4 * IdentityOperator(S(2, 3))).reduce()
    out['block diagonal with an integer scalar block'] = lambda: BlockDiagonalOperator({'a': (3 * IdentityOperator(S(2))).reduce(), 'b': DiagonalOperator(jnp.array([2., 4.]), in_structure=S(2))})
    out['block diagonal'] = lambda: BlockDiagonalOperator([Dense(spd, S(3), 'ij,j->i'), DiagonalOperator(jnp.array([2., 4.]), in_structure=S(2))])
    out['move axis'] = lambda: MoveAxisOperator((0, 1), (2, 0), in_structure=S(2, 3, 2))
    return out


def _dense_inverse(name):
    from furax._base.core import AbstractLinearOperator
    with real_solver():
        op = _dense_inverse_ops()[name]()
        try:
            M = np.asarray(AbstractLinearOperator.as_matrix(op), dtype=np.float64)
            Mi = np.asarray(op.I.as_matrix(), dtype=np.float64)
        except Exception as ex:  # noqa: BLE001
            return violation(f'{name}: as_matrix() of the inverse raises {type(ex).__name__}: {str(ex)[:120]}', signature=f'c06-dense-inverse-raises:{name}', kind='dense-inverse')
        n = M.shape[0]
        if Mi.shape != (n, n) or not np.all(np.isfinite(Mi)):
            return violation(f'{name}: as_matrix() of the inverse has shape {Mi.shape} / non-finite entries', signature=f'c06-dense-inverse:{name}', kind='dense-inverse')
        err = float(np.max(np.abs(Mi @ M - np.eye(n))))
        if err > (1e-5 if name.startswith('InverseOperator') else 1e-8):   # the iterative solve is only exact to the solver tolerance
            return violation(f'{name}: as_matrix() of the inverse times as_matrix() of the operator differs from the identity by {err:.3e}', signature=f'c06-dense-inverse:{name}', kind='dense-inverse')
        if op.I.I is not op and not np.allclose(np.asarray(AbstractLinearOperator.as_matrix(op.I.I)), M, atol=1e-10):
            return violation(f'{name}: A.I.I does not denote A', signature=f'c06-dense-II:{name}', kind='dense-inverse')
        # and through mv: A.I(A x) = x = A(A.I x) on a concrete vector
        x = jax.tree.map(lambda l: jnp.arange(1., 1 + int(np.prod(l.shape)), dtype=l.dtype).reshape(l.shape) / 3, op.in_structure())
        tol_ = 1e-5 if name.startswith('InverseOperator') else 1e-9
        from furax._base.core import InverseOperator as _Lazy
        lazy_ok = not isinstance(op.I, _Lazy) or 'spd' in name      # the iterative inverse is only claimed for SPD operators
        for lab, got in ((('A.I(A x)', op.I.mv(op.mv(x))), ('A(A.I x)', op.mv(op.I.mv(x)))) if lazy_ok else ()):
            close, msg = trees_close(got, x, rtol=tol_, atol=tol_)
            if not close:
                return violation(f'{name}: {lab} != x: {msg}', signature=f'c06-dense-roundtrip:{name}', kind='dense-inverse')
    return ok(obligations=0, concrete_checks=1, nontrivial=True, sample=dict(case=f'dense inverse: {name}', max_error=err))


def _configured(order):
    """Concrete: a lazy inverse created under nested Config blocks solves to the CONFIGURED tolerance (tighter than the default)."""
    import lineax as lx
    from furax import Config
    from furax._base.core import InverseOperator
    from furax._base.dense import DenseBlockDiagonalOperator as Dense
    n = 24
    rng = np.random.default_rng(3)
    q, _ = np.linalg.qr(rng.normal(size=(n, n)))
    M = (q * np.geomspace(1.0, 1e3, n)) @ q.T
    M = (M + M.T) / 2
    A = Dense(jnp.asarray(M), S(n), 'ij,j->i')
    y = jnp.asarray(rng.normal(size=n))
    tight = lx.CG(rtol=1e-12, atol=1e-12, max_steps=2000)
    quiet = lambda solution: None  # noqa: E731
    with real_solver():
        if order == 'solver-outside':
            with Config(solver=tight):
                with Config(solver_callback=quiet):
                    inv = InverseOperator(A)
        elif order == 'solver-inside':
            with Config(solver_callback=quiet):
                with Config(solver=tight):
                    inv = InverseOperator(A)
        else:
            with Config(solver=tight, solver_callback=quiet):
                inv = InverseOperator(A)
        z = inv.mv(y)            # applied OUTSIDE the blocks: the captured configuration counts
    res = float(np.linalg.norm(M @ np.asarray(z) - np.asarray(y)) / np.linalg.norm(np.asarray(y)))
    if getattr(inv, 'config', None) is not None and inv.config.solver is not tight:
        return violation(f'[{order}] the lazy inverse did not capture the configured solver (captured {inv.config.solver})', signature=f'c06-configured:{order}', kind='configured')
    if not np.isfinite(res) or res > 1e-9:
        return violation(f'[{order}] A.I(y) leaves a relative residual {res:.2e} although the configured tolerance is 1e-12 (the default is 1e-6)',
                         signature=f'c06-configured:{order}', kind='configured')
    return ok(obligations=0, concrete_checks=1, nontrivial=True, sample=dict(case=f'configured tolerance, {order}', relative_residual=res))


def _refuse():
    from furax._base.core import InverseOperator
    from furax._base.dense import DenseBlockDiagonalOperator
    from furax._base.indices import IndexOperator
    from furax import RavelOperator
    bad = []
    ops = [DenseBlockDiagonalOperator(jnp.ones((2, 3)), S(3), 'ij,j->i'), IndexOperator(jnp.array([0, 1]), in_structure=S(3)),
           RavelOperator(in_structure=S(2, 3)), DenseBlockDiagonalOperator(jnp.ones((2, 3)), S(3), 'ij,j->i') @ DenseBlockDiagonalOperator(jnp.ones((3, 3)), S(3), 'ij,j->i')]
    from furax._base.blocks import BlockDiagonalOperator
    rect, sq = DenseBlockDiagonalOperator(jnp.ones((2, 3)), S(3), 'ij,j->i'), DenseBlockDiagonalOperator(jnp.eye(3), S(3), 'ij,j->i')
    ops += [BlockDiagonalOperator([rect, sq]), BlockDiagonalOperator({'a': sq, 'b': rect}), BlockDiagonalOperator([rect])]
    for op in ops:
        for how, f in (('.I', lambda o: o.I), ('InverseOperator', InverseOperator)):
            try:
                f(op)
                bad.append(f'{how} accepted non-square {type(op).__name__}')
            except Exception:  # noqa: BLE001  ("refused": any error)
                pass
    if bad:
        return violation('non-square operators must be refused: ' + '; '.join(bad), signature='c06-refuse:' + ';'.join(bad)[:120], kind='refuse')
    return ok(obligations=len(ops) * 2, nontrivial=True, sample=dict(case='non-square operators refused', n=len(ops) * 2))


def replay(key, model, info):
    twin = False
    if key and key[0] == 'twin':
        key, twin = key[1], True
    key = _tuplify(key)
    kind = info.get('kind') or ''
    if key[0] in ('refuse', 'dense-inverse', 'configured-tolerance') or kind in ('raises', 'struct', 'refuse'):
        r = run_case(key)
        return r['status'] == 'violation', r.get('what', 'ok')
    mode, fam, x0 = key
    e, force = _expr(x0)
    with real_solver():
        params = params_from_model(fam, e, model)
        op = Builder(fam).build(e, params)
        inv = _inv(op, force)
        x = model_tree(model, 'x', op.in_structure())
        s = 2 if twin else 1
        sc = lambda t: jax.tree.map(lambda l: l * s, t)  # noqa: E731
        tol = 1e-3 if mode == 'lazy' else 1e-7
        table = {
            'A.I(A x) = x': lambda: (inv.mv(sc(op.mv(x))), x), 'A(A.I x) = x': lambda: (op.mv(inv.mv(x)), x),
            'A.I.I = A': lambda: (inv.I.mv(x), op.mv(x)),
            'operand handed to the solver denotes A': lambda: (inv.operator.mv(x), op.mv(x)),
            'D D+ D = D (no condition on d)': lambda: (op.mv(sc(op.I.mv(op.mv(x)))), op.mv(x)),
            'D+ D D+ = D+ (no condition on d)': lambda: (op.I.mv(op.mv(op.I.mv(x))), op.I.mv(x)),
            'D D+ = D+ D': lambda: (op.mv(op.I.mv(x)), op.I.mv(op.mv(x))),
            'D+ D x = x when d != 0': lambda: (op.I.mv(op.mv(x)), x),
        }
        if kind not in table:
            return False, f'unknown kind {kind}'
        a, b = table[kind]()
        close, msg = trees_close(a, b, rtol=tol)
        return (not close), f'{kind} for {show(e)}: {msg}'
