"""C19 - solver configuration is scoped, restored and captured correctly (CrossHair on the real Config machinery)."""
from __future__ import annotations

import ast
import os
import re
import subprocess
import sys
import time

from ..harness import VERIF, inconclusive, ok, skipped, violation

ID = 'C19'
ENGINE = 'crosshair'
SOLVER_NAME = 'CrossHair 0.0.110 (symbolic execution of Python, z3 inside); solver time = wall time of the CrossHair runs'
LEVEL = 'other'
TECHNIQUE = 'CrossHair (z3-backed symbolic execution) of a history interpreter over the real Config/ConfigState/_config_var/InverseOperator against an explicit-stack oracle; two tasks in separate contextvars.Contexts under a symbolic schedule'
EXPLANATION = ('A symbolic history (List[int]) of events {enter one of three settings, leave normally, leave through an exception, create a lazy inverse, '
               'apply it, read, transpose the last inverse, construct a Config without entering it (2 settings), enter the Config constructed last} is executed on the REAL Config / ConfigState / _config_var / InverseOperator (lineax.linear_solve replaced by a recorder); '
               'after every event the active configuration must equal the top of an explicit stack (inheritance of un-named settings, restoration on both '
               'exit kinds), the object returned by __enter__ must be the active one, an inverse must hand the solver the configuration active at its '
               'creation, and at the end Config.instance() is the initial object. Isolation: two such histories run as two logical tasks, each in its own '
               'contextvars.Context (the per-thread state a new thread receives), interleaved by a symbolic schedule; each task must only observe its own '
               'stack. CrossHair reports "Confirmed over all paths" = holds for every history within the bound. A concrete run with two real threads and '
               'barriers complements it.')
FUNCTIONS = ['Config.__init__/__enter__/__exit__/instance', 'ConfigState (frozen dataclass, replace)', '_config_var (ContextVar, token reset)', 'InverseOperator.__init__ (config capture) / mv (solver, throw, options)']
BOUNDS = {'quick': 'histories of length <= 4 over the 9 event kinds without deferred construction (7 380) and over the 8 kinds {enter 0/1, leave, leave by exception, read, construct 0/1, enter constructed} (4 680); two-task schedules of length <= 4 over 4 event kinds', 'thorough': 'histories of length <= 4 over all 12 event kinds (22 620) and of length <= 5 over 7 kinds (enter setting 0 / 2, leave, leave by exception, create, apply, read: 19 607), schedules of length <= 5'}
STUBS = ['lineax.linear_solve -> recorder of (solver, throw, options); jax.debug.callback dropped',
         'equinox module construction and the recorded solve run under crosshair NoTracing (values there are concrete)']
ASSUMPTIONS = ['a thread switch changes context-variable state only through the Context switch; preemption inside the C-level ContextVar.set is outside the claim',
               'histories longer than the bound are outside the claim']
RULE = 'case = one CrossHair run (all histories with a given first event); non-trivial = always (hundreds of histories per run); distinct keys'
BUDGET = {'quick': 900, 'thorough': 3000}
CASE_TIMEOUT = {'quick': 700, 'thorough': 2700}


ALPHA_A = list(range(9))                    # every event kind except deferred construction
ALPHA_B = [0, 1, 3, 4, 7, 9, 10, 11]       # enter / leave / read + construct-now-enter-later
ALPHA_C = [0, 2, 3, 4, 5, 6, 7]             # length-5 histories: enter S1 / enter the setting with options and preconditioner, leave (both ways), create, apply, read
NOOP_HEADS = (3, 4, 6, 8, 11)               # a no-op as first event: the rest is a shorter history covered by the other runs


def cases(tier, seed):
    out = []
    if tier == 'quick':
        out += [('scoped', first, 4, 'A') for first in ALPHA_A if first not in NOOP_HEADS]
        out += [('scoped', first, 4, 'B') for first in ALPHA_B if first not in NOOP_HEADS]
        out += [('isolated', first, 4) for first in range(3)]
    else:
        out += [('scoped', first, 4, 'all') for first in range(12)]
        out += [('scoped', first, 5, 'C') for first in ALPHA_C if first not in NOOP_HEADS]
        out += [('isolated', first, 5) for first in range(4)]
    out.append(('threads',))
    return out


def twins():
    return [('twin-ch',)]


def _crosshair(mode, first, maxlen, timeout, mutant=False, alpha='all'):
    allowed = {'A': ALPHA_A, 'B': ALPHA_B, 'C': ALPHA_C}.get(alpha)
    env = dict(os.environ, C19_ALLOWED=','.join(map(str, allowed)) if allowed else '', C19_FIRST=str(first), C19_MAXLEN=str(maxlen), C19_MODE=mode, PYTHONPATH=VERIF + os.pathsep + os.environ.get('PYTHONPATH', ''))
    target = os.path.join(VERIF, 'fxv', 'ch', 'c19_driver_mut.py' if mutant else 'c19_driver.py')
    t0 = time.time()
    try:
        p = subprocess.run([sys.executable, '-m', 'crosshair', 'check', '--report_all', '--per_condition_timeout', str(timeout), target],
                           capture_output=True, text=True, env=env, timeout=timeout + 120)
    except subprocess.TimeoutExpired:
        return 'crosshair did not return within its budget', time.time() - t0
    return p.stdout + p.stderr, time.time() - t0


def _parse(out):
    if 'Confirmed over all paths' in out:
        return 'confirmed', None
    m = re.search(r'error: false when calling _\w+\((.*)\)', out, re.S)
    if m:
        lists = re.findall(r'\[[^\]]*\]', m.group(1))
        try:
            return 'counterexample', [ast.literal_eval(x) for x in lists]
        except Exception:  # noqa: BLE001
            return 'counterexample-unparsed', m.group(1)
    m = re.search(r'error: (\w+Error|\w+Exception)[^\n]*when calling _\w+\((.*)\)', out, re.S)
    if m:
        lists = re.findall(r'\[[^\]]*\]', m.group(2))
        try:
            return 'counterexample', [ast.literal_eval(x) for x in lists]
        except Exception:  # noqa: BLE001
            pass
    if 'error:' in out:
        return 'error', out[-600:]
    return 'notconfirmed', out[-400:]


def run_case(key, twin=False):
    if key and key[0] == 'twin':
        return run_case(key[1], twin=True)
    if key[0] == 'threads':
        from ..ch import c19_model as M
        bad = M.threads_concrete(300)
        if bad:
            return violation(f'real threads observe each other\'s configuration: {bad[:5]}', signature='c19-threads', kind='threads')
        return ok(obligations=0, concrete_checks=1, nontrivial=True, sample=dict(case='two real threads, 300 barrier-synchronised Config blocks each'))
    if key[0] == 'twin-ch':
        out, dt = _crosshair('scoped', -1, 4, 300, mutant=True)
        st, info = _parse(out)
        if st.startswith('counterexample'):
            return violation(f'(expected) Config.__exit__ that restores the default fails on history {info}', signature='twin', kind='twin', solver_s=dt)
        return ok(sample=dict(note='mutant not found', out=out[-300:]))
    mode, first, maxlen = key[:3]
    alpha = key[3] if len(key) > 3 else 'all'
    per = 500 if maxlen <= 4 else 2400
    out, dt = _crosshair(mode, first, maxlen, per, alpha=alpha)
    st, info = _parse(out)
    if st == 'confirmed':
        return ok(obligations=1, nontrivial=True, solver_s=dt, sample=dict(harness=mode, alphabet=alpha, first_event=first, maxlen=maxlen, verdict='Confirmed over all paths', seconds=round(dt, 1)))
    if st == 'counterexample':
        return violation(f'{mode}: configuration differs from the explicit-stack oracle on history {info}', model={'lists': info}, signature=f'c19-{mode}:{info}', kind=mode, solver_s=dt)
    return inconclusive(f'CrossHair: {st}: {str(info)[:300]}', solver_s=dt)


def extra_coverage(results):
    return dict(crosshair_runs_confirmed=sum(1 for r in results if r['status'] == 'ok' and isinstance(r['key'], (list, tuple)) and r['key'][0] in ('scoped', 'isolated')))


def replay(key, model, info):
    if key and key[0] == 'twin':
        return True, 'twin'
    from ..ch import c19_model as M
    key = tuple(key)
    if key[0] == 'threads':
        bad = M.threads_concrete(300)
        return bool(bad), str(bad[:5])
    lists = model.get('lists') or []
    if key[0] == 'scoped' and len(lists) >= 1:
        try:
            good = M.scoped_impl(list(lists[0]))
        except Exception as ex:  # noqa: BLE001
            return True, f'history {lists[0]} raises {type(ex).__name__}: {ex}'
        return (not good), f'history {lists[0]}: configuration {"matches" if good else "differs from"} the explicit-stack oracle outside CrossHair'
    if key[0] == 'isolated' and len(lists) >= 2:
        try:
            good = M.isolated_impl(list(lists[0]), list(lists[1]))
        except Exception as ex:  # noqa: BLE001
            return True, f'schedule {lists} raises {type(ex).__name__}: {ex}'
        return (not good), f'schedule {lists[0]} events {lists[1]}: {"isolated" if good else "a task observes the configuration of the other task"}'
    return False, 'counterexample arguments could not be parsed'
