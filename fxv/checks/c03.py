"""C03 - transpose is the exact adjoint:  <A x, y> == <x, A.T y>  for all params, x, y;  A.T.T == A."""
from __future__ import annotations

import itertools
import os
import random

import jax
import jax.numpy as jnp
import numpy as np

from .. import interp as E
from ..catalogue import FAM, Builder, show
from ..common import Decider, S, describe_struct, inner, model_tree, pairs, structs_equal
from ..harness import inconclusive, ok, skipped, violation
from ..programs import build_concrete, params_from_model, real_solver, sym_eval
from . import c01

ID = 'C03'
LEVEL = 'other'
TECHNIQUE = 'jaxpr-level symbolic execution of A.mv and A.T.mv (incl. jax.linear_transpose output) + z3 on the trilinear adjoint identity (complex-valued family: bilinear identity exactly in Q(i))'
EXPLANATION = ('For each operator program A (built from the real classes inside the trace, all float parameters symbolic) '
               'the jaxprs of A.mv, A.T.mv and A.T.T.mv are interpreted exactly; z3 decides '
               '<A x,y> != <x,A.T y> (one polynomial identity in params, x, y) and A.T.T.mv(x) != A.mv(x). '
               'unsat = exact adjoint for all values at these shapes.')
FUNCTIONS = ['TransposeOperator.mv (jax.linear_transpose traced)', 'CompositionOperator.transpose', 'AdditionOperator.transpose',
             'BlockRow/BlockDiagonal/BlockColumnOperator.transpose', 'DenseBlockDiagonalOperator.transpose/_get_transposed_subscripts',
             'MoveAxisOperator.transpose', 'ReshapeTransposeOperator.mv', 'QURotationTransposeOperator.mv',
             'ToastObservationMatrixTransposeOperator.mv', 'symmetric/diagonal decorators (transpose = self)',
             'AbstractLazyInverseOrthogonalOperator', 'DiagonalInverseOperator']
BOUNDS = {'quick': 'every catalogue leaf of 4 structure families, leaf.T/.I(closed form), seeded products/sums/blocks/rule chains '
                   '(same grammar as C01, depth <= 2), einsum subscripts of the catalogue, 3x3 CSR observation-matrix fixture with symbolic entries',
          'thorough': 'same grammar as C01 thorough'}
BOUNDS['quick'] += '; complex-valued family: 12 leaves with symbolic real and imaginary parts, lazy/own transposes, double transposes, 14 composites (products, sums, blocks) and their transposes'
BOUNDS['thorough'] += '; complex-valued family: all products and sums of 7 leaves and their transposes'
STUBS = ['lineax.linear_solve -> contract stub built on lax.custom_linear_solve, so that its transpose is the contract A^T z = y; the real solver is additionally run once per program with a lazy inverse']
ASSUMPTIONS = ['exact real arithmetic (complex-valued family: exact arithmetic in Q(i))', 'inner product = harness-own leaf-wise sum of products, NOT conjugated (the transpose is the bilinear adjoint: TransposeOperator.mv is jax.linear_transpose)',
               'scalars that are inverted are != 0']
RULE = ('program = expression tree over catalogue leaves; non-trivial = program has symbolic atoms and its transpose is '
        'not the same object; distinct = distinct expression key')
BUDGET = {'quick': 300, 'thorough': 2400}

TOAST = ('toast',)


def cases(tier, seed):
    out = [TOAST, ('toast', 'T')]
    from .. import cplx
    out += [('cplx', e) for e in cplx.expressions(tier)]
    from ..catalogue import other_stokes_programs
    out += [(fam, e) for fam in ('iquv', 'qu') for e in other_stokes_programs(fam)]
    rnd = random.Random(f'c03-{seed}')
    for fam in ('vec', 'mat', 'stokes', 'tree'):
        base = [('leaf', n, 0) for n in FAM[fam]]
        progs = list(base) + [('T', b) for b in base] + [('I', ('leaf', n, 0)) for n in c01.INV_OK[fam]]
        progs += [('neg', b) for b in base[:4]] + [('kmul', b, 0) for b in base[:6]]
        from ..catalogue import has_tag, leaf_names
        # lazy inverses of *symbolic* positive diagonals inside longer chains make the trilinear adjoint query non-linear in the
        # stub atoms (z3 answers unknown): they stay in C01/C06, here only short ones are kept
        allp = [e for e in c01.gen_programs(fam, tier, seed) if not (has_tag(e, ('lazyI',)) and len(leaf_names(e)) > 2)]
        rnd.shuffle(allp)
        progs += allp[: (len(allp) if tier == 'thorough' else 260)]
        seen = set()
        for e in progs:
            if e not in seen:
                seen.add(e)
                out.append((fam, e))
    return out


def twins():
    return [('vec', ('leaf', 'W', 0)), ('stokes', ('leaf', 'R', 0))]


def _toast_fixture():
    import scipy.sparse as sp
    d = os.path.join(os.path.dirname(os.path.dirname(os.path.dirname(os.path.abspath(__file__)))), '.work')
    os.makedirs(d, exist_ok=True)
    path = os.path.join(d, f'obs_{os.getpid()}.npz')
    M = sp.csr_matrix(np.array([[1., 2, 0], [0, 0, 3], [4, 0, 5]]))
    np.savez(path, format='csr', data=M.data, indices=M.indices, indptr=M.indptr, shape=M.shape)
    return path


def _toast_case(key, twin):
    from furax.toast.obs_matrix import ToastObservationMatrixOperator
    import equinox as eqx
    op0 = ToastObservationMatrixOperator(_toast_fixture())
    if len(key) > 1:
        base = op0
        get = lambda o: o.T  # noqa: E731
    else:
        get = lambda o: o  # noqa: E731
    st = op0.in_structure()
    nnz = op0.matrix.data.shape[0]

    def with_data(d):
        return eqx.tree_at(lambda o: o.matrix.data, op0, d)

    ctx = E.Ctx()
    dstruct = S(nnz, dtype=op0.matrix.data.dtype)
    Ax, _, _ = E.run(ctx, lambda d, x: get(with_data(d)).mv(x), [('d', dstruct, 'sym'), ('x', st, 'sym')])
    ATy, _, _ = E.run(ctx, lambda d, y: get(with_data(d)).T.mv(y), [('d', dstruct, 'sym'), ('y', st, 'sym')])
    ATTx, _, _ = E.run(ctx, lambda d, x: get(with_data(d)).T.T.mv(x), [('d', dstruct, 'sym'), ('x', st, 'sym')])
    x, y = E.symbols('x', st), E.symbols('y', st)
    dec = Decider()
    r1 = dec.decide(ctx, [(inner(Ax, y), inner(x, ATy))])
    r2 = dec.decide(ctx, pairs(ATTx, Ax, ctx))
    # oracle for mv itself: explicit CSR product written by the harness
    d = E.symbols('d', dstruct)
    dense = [[None] * 3 for _ in range(3)]
    ind, ptr = np.asarray(op0.matrix.indices), np.asarray(op0.matrix.indptr)
    want = []
    for i in range(3):
        acc = E.Poly()
        for k in range(ptr[i], ptr[i + 1]):
            acc = acc + d[k] * x[int(ind[k])]
        want.append(acc)
    if len(key) > 1:
        want = []
        for j in range(3):
            acc = E.Poly()
            for i in range(3):
                for k in range(ptr[i], ptr[i + 1]):
                    if int(ind[k]) == j:
                        acc = acc + d[k] * x[i]
            want.append(acc)
    r3 = dec.decide(ctx, list(zip(E.flat_elems(Ax), want)))
    # the dense matrix of A.T is the transpose of the dense matrix of A (whatever as_matrix() each of them uses), and acts as mv
    extra = []
    if True:
        M, _, _ = E.run(ctx, lambda d: get(with_data(d)).as_matrix(), [('d', dstruct, 'sym')])
        MT, _, _ = E.run(ctx, lambda d: get(with_data(d)).T.as_matrix(), [('d', dstruct, 'sym')])
        Mx, _, _ = E.run(ctx, lambda d, x: get(with_data(d)).as_matrix() @ x, [('d', dstruct, 'sym'), ('x', st, 'sym')])
        extra.append(dec.decide(ctx, pairs(MT, E.fix(np.asarray(M, dtype=object).T) if E.is_sym(M) else np.asarray(M).T, ctx)))
        extra.append(dec.decide(ctx, pairs(Mx, Ax, ctx)))
    bad = [r for r in [r1, r2, r3] + extra if r.status != 'unsat']
    common = dict(prims=sorted(ctx.prims), **dec.stats())
    if not bad:
        return ok(nontrivial=True, sample=dict(program='ToastObservationMatrixOperator(3x3 CSR fixture)' + ('.T' if len(key) > 1 else ''),
                                               verdict='unsat', smt_digest=r1.digest), **common)
    if any(r.status == 'unknown' for r in bad):
        return inconclusive('solver unknown', **common)
    common.pop('obligations')
    return violation('observation-matrix operator: adjoint / double transpose / CSR product identity fails',
                     model=bad[0].model, signature='toast-adjoint', kind='toast', **common)


def run_case(key, twin=False):
    if key and key[0] == 'twin':
        return run_case(key[1], twin=True)
    if key[0] == 'toast':
        return _toast_case(key, twin)
    if key[0] == 'cplx':
        from .. import cplx
        return cplx.check_adjoint(c01._tuplify(key[1]), twin)
    fam, e = key
    bld = Builder(fam)
    try:
        op0 = build_concrete(fam, e)
        xin, yout = op0.in_structure(), op0.out_structure()
    except ValueError as ex:
        return skipped(f'ill-typed for furax: {str(ex)[:80]}')
    except Exception as ex:  # noqa: BLE001
        return skipped(f'construction raises {type(ex).__name__}: {str(ex)[:120]}')
    try:
        t0 = op0.T
        tin, tout = t0.in_structure(), t0.out_structure()
    except Exception as ex:  # noqa: BLE001
        return violation(f'.T raises {type(ex).__name__}: {str(ex)[:160]} on {show(e)}', signature=f'T-raises:{fam}:{show(e)}', kind='raises')
    if not structs_equal(tin, yout) or not structs_equal(tout, xin):
        return violation(f'.T does not swap the structures of {show(e)}: T.in={describe_struct(tin)} T.out={describe_struct(tout)} '
                         f'A.in={describe_struct(xin)} A.out={describe_struct(yout)}', signature=f'T-structure:{fam}:{show(e)}', kind='structure')
    ctx = E.Ctx()
    try:
        Ax, ashape = sym_eval(ctx, fam, e, lambda op, x: op.mv(x), xin, 'x')
        if not structs_equal(ashape, yout):
            return skipped('mv() does not honour out_structure() (C05/C10)')
        if twin:
            ATy, _ = sym_eval(ctx, fam, e, lambda op, y: jax.tree.map(lambda l: 1.5 * l, op.T.mv(y)), yout, 'y')
        else:
            ATy, tshape = sym_eval(ctx, fam, e, lambda op, y: op.T.mv(y), yout, 'y')
        ATTx, _ = sym_eval(ctx, fam, e, lambda op, x: op.T.T.mv(x), xin, 'x')
    except NotImplementedError as ex:
        if 'fxsmt_' in str(ex):
            return skipped('transpose of an iterative inverse: outside the claim')
        raise
    x, y = E.symbols('x', xin), E.symbols('y', yout)
    dec = Decider()
    assume = bld.assumptions(e)
    from ..catalogue import has_tag
    if has_tag(e, ('I', 'lazyI')) and not twin:
        # the contract stub hides the real solver: the transposed operator must also be applicable with the real one
        with real_solver():
            try:
                yy = jax.tree.map(lambda l: jnp.ones(l.shape, l.dtype), yout)
                build_concrete(fam, e).T.mv(yy)
            except Exception as ex:  # noqa: BLE001
                return violation(f'A.T.mv raises {type(ex).__name__}: {str(ex)[:120]} with the real solver for {show(e)}',
                                 signature=f'T-mv-raises:{type(ex).__name__}', kind='T-mv-raises')
    try:
        lhs, rhs = inner(Ax, y), inner(x, ATy)
    except AssertionError:
        return violation(f'A.T.mv returns the wrong number of elements for {show(e)}', signature=f'T-structure:{fam}:{show(e)}', kind='structure')
    r1 = dec.decide(ctx, [(lhs, rhs)], assumptions=assume)
    r2 = dec.decide(ctx, pairs(ATTx, Ax, ctx), assumptions=assume)
    common = dict(prims=sorted(ctx.prims), **dec.stats())
    sample = dict(program=show(e), family=fam, transpose=type(t0).__name__, verdict=r1.status, smt_digest=r1.digest)
    if r1.status == 'unsat' and r2.status == 'unsat':
        return ok(obligations=2, nontrivial=(t0 is not op0) and len(bld.layout(e)) > 0 or dec.nontrivial, sample=sample,
                  **{k: v for k, v in common.items() if k != 'obligations'})
    if 'unknown' in (r1.status, r2.status):
        return inconclusive('solver unknown', **common)
    common.pop('obligations')
    which = 'adjoint' if r1.status == 'sat' else 'double-transpose'
    return violation(f'{which} identity fails for {show(e)} [{fam}]', model=(r1 if r1.status == 'sat' else r2).model,
                     signature=f'{which}:{fam}:{show(e)}', kind=which, twin=twin, obligations=2, **common)


def replay(key, model, info):
    twin = False
    if key and key[0] == 'twin':
        key, twin = key[1], True
    kind = info.get('kind')
    if key[0] == 'toast':
        from furax.toast.obs_matrix import ToastObservationMatrixOperator
        import equinox as eqx
        op0 = ToastObservationMatrixOperator(_toast_fixture())
        nnz = op0.matrix.data.shape[0]
        d = jnp.asarray(np.asarray(model_tree(model, 'd', S(nnz, dtype=op0.matrix.data.dtype))) + (0 if model else 0))
        if not model:
            d = op0.matrix.data
        op = eqx.tree_at(lambda o: o.matrix.data, op0, d)
        if len(key) > 1:
            op = op.T
        st = op.in_structure()
        x, y = model_tree(model, 'x', st), model_tree(model, 'y', st)
        if not model or float(jnp.abs(x).sum()) == 0:
            x, y = jnp.array([1., -2., 3.]), jnp.array([0.5, 4., -1.])
        from furax._base.core import AbstractLinearOperator
        G = np.asarray(AbstractLinearOperator.as_matrix(op))          # columns op(e_j)
        problems = []
        if abs(float(jnp.vdot(op.mv(x), y)) - float(jnp.vdot(x, op.T.mv(y)))) > 1e-9:
            problems.append('<A x, y> != <x, A.T y>')
        if not np.allclose(np.asarray(op.T.T.mv(x)), np.asarray(op.mv(x))):
            problems.append('A.T.T does not act as A')
        if not np.allclose(np.asarray(op.as_matrix()), G):
            problems.append('as_matrix() differs from the columns A e_j')
        if not np.allclose(np.asarray(op.T.as_matrix()), G.T):
            problems.append('as_matrix() of A.T is not the transpose of the dense matrix of A')
        return bool(problems), 'observation matrix' + ('.T' if len(key) > 1 else '') + ': ' + ('; '.join(problems) or 'all identities hold on the model values')
    if key[0] == 'cplx':
        from .. import cplx
        if kind == 'struct':
            r = cplx.check_adjoint(c01._tuplify(key[1]))
            return r['status'] == 'violation', r.get('what', 'ok')
        return cplx.replay(c01._tuplify(key[1]), model, kind, twin)
    fam, e = key
    e = c01._tuplify(e)
    with real_solver():
        if kind == 'T-mv-raises':
            op0 = build_concrete(fam, e)
            try:
                op0.T.mv(jax.tree.map(lambda l: jnp.ones(l.shape, l.dtype), op0.out_structure()))
            except Exception as ex:  # noqa: BLE001
                return True, f'A.T.mv raises {type(ex).__name__}: {str(ex)[:150]}'
            return False, 'A.T.mv works'
        if kind == 'raises':
            try:
                build_concrete(fam, e).T
            except Exception as ex:  # noqa: BLE001
                return True, f'.T raises {type(ex).__name__}'
            return False, '.T did not raise'
        if kind == 'structure':
            op0 = build_concrete(fam, e)
            t0 = op0.T
            bad = not structs_equal(t0.in_structure(), op0.out_structure()) or not structs_equal(t0.out_structure(), op0.in_structure())
            if not bad:
                x = jax.tree.map(lambda l: jnp.ones(l.shape, l.dtype), op0.out_structure())
                got = jax.eval_shape(t0.mv, x)
                bad = not structs_equal(got, op0.in_structure())
            return bad, 'structures not swapped' if bad else 'structures swapped'
        params = params_from_model(fam, e, model)
        op = Builder(fam).build(e, params)
        x = model_tree(model, 'x', op.in_structure())
        y = model_tree(model, 'y', op.out_structure())
        dot = lambda a, b: float(sum(jnp.vdot(u, v) for u, v in zip(jax.tree.leaves(a), jax.tree.leaves(b))))  # noqa: E731
        if kind == 'double-transpose':
            from ..common import trees_close
            close, msg = trees_close(op.T.T.mv(x), op.mv(x))
            return (not close), 'A.T.T.mv vs A.mv: ' + msg
        aty = op.T.mv(y)
        if twin:
            aty = jax.tree.map(lambda l: 1.5 * l, aty)
        l, r = dot(op.mv(x), y), dot(x, aty)
        bad = abs(l - r) > 1e-7 * max(1.0, abs(l), abs(r))
        return bad, f'<Ax,y>={l!r} <x,A.T y>={r!r} for {show(e)}'
