"""C14 - einsum block operator: mv = einsum, and the rewritten-subscript transpose is the exact adjoint
for every subscript string it accepts (strings it cannot transpose must be rejected)."""
from __future__ import annotations

import itertools
import random

import jax
import jax.numpy as jnp
import numpy as np

from .. import interp as E
from ..common import Decider, S, describe_struct, inner, model_tree, pairs, structs_equal, trees_close
from ..harness import inconclusive, ok, skipped, violation

ID = 'C14'
LEVEL = 'other'
TECHNIQUE = 'exhaustive enumeration of subscript strings (program structure) + jaxpr-level symbolic execution of mv / T.mv + z3 on the einsum and adjoint identities'
EXPLANATION = ('Every explicit two-operand subscript string over {i,j,k} (<=3 block letters, <=2 input/output letters, repeated '
               'letters allowed, optional ellipsis at the front, back or after the first letter of each operand), up to letter '
               'renaming, that NumPy einsum accepts is a program. Blocks, x and y are symbolic: z3 decides mv == einsum (oracle: '
               'numpy.einsum on symbol arrays) and, whenever _get_transposed_subscripts returns a string, <A x,y> == <x,A.T y>; '
               'when it raises nothing is transposed - except that a string of the statement\'s family (one contracted letter, one free '
               'block letter, output = input with the two exchanged; decided without the library) must be transposed. Shared block '
               'array and one block array per leaf are both covered.')
FUNCTIONS = ['DenseBlockDiagonalOperator.__init__/mv/transpose', 'DenseBlockDiagonalOperator._parse_subscripts', 'DenseBlockDiagonalOperator._get_transposed_subscripts']
BOUNDS = {'quick': 'all strings with one contracted and one free block letter (490, all must be transposed) and any other string the transposer accepts + seeded 250 others; dims i=2, j=3, k=2, ellipsis = one axis of size 2; '
                   'pytree variants for 12 strings (shared block on a pytree, one block per leaf, one block per leaf with leaves of different shapes)',
          'thorough': 'all ~19 000 einsum-valid strings of the family; the transposable ones also with dims i=3, j=2, k=3'}
STUBS = []
ASSUMPTIONS = ['real arithmetic', 'numpy.einsum on exact symbol arrays is the reference semantics of an einsum string']
RULE = 'case = subscript string (up to renaming) x block layout; non-trivial = the string is accepted by the transposer (adjoint decided); distinct strings'
BUDGET = {'quick': 400, 'thorough': 3000}
EXHAUSTIVE = {'thorough': True}
DIM = {'i': 2, 'j': 3, 'k': 2}
DIMS = {'a': {'i': 2, 'j': 3, 'k': 2}, 'b': {'i': 3, 'j': 2, 'k': 3}}  # second set: no accidental size coincidence with the ellipsis axis


def _operands(maxlen, minlen):
    out = []
    for n in range(minlen, maxlen + 1):
        for t in itertools.product('ijk', repeat=n):
            s = ''.join(t)
            out += [s, '...' + s, s + '...']
            if n >= 2:
                out.append(s[0] + '...' + s[1:])
    return out


def _canon(s):
    order = []
    for c in s:
        if c in 'ijk' and c not in order:
            order.append(c)
    return order == list('ijk')[:len(order)]


def _shape(op, dims='a'):
    core = [DIMS[dims][c] for c in op.replace('...', '')]
    if '...' in op:
        k = op.index('...')
        core = core[:k] + [2] + core[k:]
    return tuple(core)


def _split(s):
    l, rest = s.split(',')
    r, o = rest.split('->')
    return l, r, o


def enumerate_strings():
    from furax._base.dense import DenseBlockDiagonalOperator as D
    Ls, Rs, Os = _operands(3, 2), _operands(2, 1), _operands(2, 1)
    acc, tr = [], []
    for l in Ls:
        for r in Rs:
            for o in Os:
                s = f'{l},{r}->{o}'
                if not _canon(s):
                    continue
                try:
                    np.einsum(s, np.zeros(_shape(l)), np.zeros(_shape(r)))
                except Exception:  # noqa: BLE001
                    continue
                (tr if (_in_family(s) or _transposed(D, s) is not None) else acc).append(s)
    return tr, acc


def _in_family(s):
    """The statement's family, decided without the library: exactly one contracted letter c (blocks and input, not output), exactly
    one free block letter f (blocks and output, not input), and the output operand is the input operand with c replaced by f (so the
    other letters and the ellipsis stand at the same places).  For these strings a rewriting exists (swap c and f in the blocks,
    exchange input and output), hence the library must transpose them; outside the family it may reject or transpose correctly."""
    l, r, o = _split(s)
    sl, sr, so = (set(x.replace('...', '')) for x in (l, r, o))
    contracted, free = (sl & sr) - so, (sl & so) - sr
    if len(contracted) != 1 or len(free) != 1:
        return False
    return o == r.replace(next(iter(contracted)), next(iter(free)))


def _transposed(D, s):
    """The rewritten subscripts if the library transposes `s`, None if it rejects it (any error).  Uses the rewriting routine named in
    the property when it exists; if it has been renamed, falls back on building the operator and taking `.T`."""
    f = getattr(D, '_get_transposed_subscripts', None)
    if f is not None:
        try:
            return f(s)
        except Exception:  # noqa: BLE001
            return None
    l, r, _ = _split(s)
    try:
        t = D(jnp.ones(_shape(l)), S(*_shape(r)), s).T
        return getattr(t, 'subscripts', '?')
    except Exception:  # noqa: BLE001
        return None


def cases(tier, seed):
    rnd = random.Random(f'c14-{seed}')
    tr, other = enumerate_strings()
    out = [('s', s, 'shared') for s in tr]
    rnd.shuffle(other)
    if tier == 'quick':
        other = other[:250]
    out += [('s', s, 'shared') for s in other]
    # a few strings the docstrings name, with the default
    for s in ['ij...,j...->i...', 'hij...,hj...->hi...'.replace('h', 'k'), 'ikj,kj->ki', 'imn,in->im'.replace('m', 'j').replace('n', 'k'), 'iji,j->i', 'iij,j->i', 'ijj,j->i']:
        out.append(('s', s, 'shared'))
    sample = tr[:]
    rnd.shuffle(sample)
    for s in sample[: (12 if tier == 'quick' else 80)]:
        out.append(('s', s, 'perleaf'))
        out.append(('s', s, 'sharedtree'))
        out.append(('s', s, 'perleaf-mixed'))   # one block array per leaf, leaves (and blocks) of DIFFERENT shapes
    if tier == 'thorough':
        out += [('s', s, 'dims-b') for s in tr]
    # (a former 'parse' case pinned the constructor's handling of implicit / malformed subscripts: not part of the statement, removed)
    seen, res = set(), []
    for k in out:
        if k not in seen:
            seen.add(k)
            res.append(k)
    return res


def twins():
    return [('s', 'ij,j->i', 'shared'), ('s', 'ikj,kj->ki', 'shared')]


def _structs(s, layout):
    l, r, o = _split(s)
    d = 'b' if layout == 'dims-b' else 'a'
    bst, xst = S(*_shape(l, d)), S(*_shape(r, d))
    if layout == 'dims-b':
        return bst, xst
    if layout == 'shared':
        return bst, xst
    if layout == 'perleaf':
        return {'a': bst, 'b': bst}, {'a': xst, 'b': xst}
    if layout == 'perleaf-mixed':
        return {'a': bst, 'b': S(*_shape(l, 'b'))}, {'a': xst, 'b': S(*_shape(r, 'b'))}
    return bst, {'a': xst, 'b': [xst]}


def run_case(key, twin=False):
    if key and key[0] == 'twin':
        return run_case(key[1], twin=True)
    if key[0] == 'parse':
        return _parse_case()
    from furax._base.dense import DenseBlockDiagonalOperator as D
    _, s, layout = key
    bst, xst = _structs(s, layout)
    l, r, o = _split(s)
    try:
        dd = 'b' if layout == 'dims-b' else 'a'
        oshape = np.einsum(s, np.zeros(_shape(l, dd)), np.zeros(_shape(r, dd))).shape
    except Exception as ex:  # noqa: BLE001
        return skipped(f'numpy.einsum rejects {s}: {ex}')
    mk = lambda b: D(b, xst, s)  # noqa: E731
    try:
        op0 = mk(jax.tree.map(lambda t: jnp.ones(t.shape), bst))
        yst = op0.out_structure()
    except Exception as ex:  # noqa: BLE001
        return violation(f'DenseBlockDiagonalOperator({s!r}) cannot be built/evaluated although einsum accepts the string: {type(ex).__name__}: {str(ex)[:100]}',
                         signature=f'c14-ctor:{s}', kind='ctor')
    if layout == 'perleaf-mixed':
        want_y = jax.tree.map(lambda bt, xt: S(*np.einsum(s, np.zeros(bt.shape), np.zeros(xt.shape)).shape), bst, xst)
    else:
        want_y = jax.tree.map(lambda t: S(*oshape), xst)
    if not structs_equal(yst, want_y):
        return violation(f'out_structure {describe_struct(yst)} != einsum shape {oshape} for {s!r}', signature=f'c14-struct:{s}', kind='struct')
    ctx = E.Ctx()
    dec = Decider()
    b, x, y = E.symbols('b', bst), E.symbols('x', xst), E.symbols('y', yst)
    got, gs, _ = E.run(ctx, lambda b, x: mk(b).mv(x), [('b', bst, 'sym'), ('x', xst, 'sym')])

    def ein(bl, xl):
        return E.fix(np.einsum(s, bl, xl))
    if layout in ('perleaf', 'perleaf-mixed'):
        want = jax.tree.map(ein, b, x, is_leaf=E.is_sym)
    else:
        want = jax.tree.map(lambda xl: ein(b, xl), x, is_leaf=E.is_sym)
    res = [('mv', dec.decide(ctx, pairs(got, want, ctx)))]
    transposed = _transposed(D, s)    # None = rejected with an error (any exception)
    if transposed is None and _in_family(s):
        return violation(f'{s!r} has a single contracted axis and a single free block axis (output = input with the two letters exchanged) but is not transposed',
                         signature=f'c14-must-transpose:{s}', kind='must-transpose')
    if transposed is not None:
        try:
            t0 = op0.T
            tin, tout = t0.in_structure(), t0.out_structure()
        except Exception as ex:  # noqa: BLE001
            return violation(f'{s!r} is accepted by the transposer (-> {transposed!r}) but .T cannot be built/evaluated: {type(ex).__name__}: {str(ex)[:120]}',
                             signature=f'c14-T-unusable:{s}', kind='T-unusable')
        if not structs_equal(tin, yst) or not structs_equal(tout, xst):
            return violation(f'{s!r} -> {transposed!r}: transpose structures in={describe_struct(tin)} out={describe_struct(tout)}', signature=f'c14-T-struct:{s}', kind='T-struct')
        aty, _, _ = E.run(ctx, lambda b, y: mk(b).T.mv(y), [('b', bst, 'sym'), ('y', yst, 'sym')])
        if twin:
            aty = jax.tree.map(lambda t: t * 2, aty, is_leaf=E.is_sym)
        res.append(('adjoint', dec.decide(ctx, [(inner(got, y), inner(x, aty))])))
        att, _, _ = E.run(ctx, lambda b, x: mk(b).T.T.mv(x), [('b', bst, 'sym'), ('x', xst, 'sym')])
        res.append(('double-transpose', dec.decide(ctx, pairs(att, got, ctx))))
    common = dict(prims=sorted(ctx.prims), **dec.stats())
    nob = common.pop('obligations')
    bad = [(n, r_) for n, r_ in res if r_.status != 'unsat']
    if not bad:
        return ok(obligations=nob, nontrivial=transposed is not None,
                  sample=dict(subscripts=s, layout=layout, transposed=transposed, verdict='unsat'), **common)
    if any(r_.status == 'unknown' for _, r_ in bad):
        return inconclusive('solver unknown', obligations=nob, **common)
    n, r_ = bad[0]
    return violation(f'{n} fails for subscripts {s!r} (transposed to {transposed!r}) [{layout}]', model=r_.model,
                     signature=f'c14-{n}:{s}', kind=n, twin=twin, obligations=nob, **common)


def _parse_case():
    from furax._base.dense import DenseBlockDiagonalOperator as D
    bad = []
    st = S(3)
    for s, must in [('ij,j', True), ('ij j->i', True), ('ij,j,k->i', True), ('ij->i', True), ('i j , j -> i', False), ('ij,j->i', False)]:
        try:
            D(jnp.ones((2, 3)), st, s)
            if must:
                bad.append(f'accepted {s!r}')
        except ValueError:
            if not must:
                bad.append(f'rejected {s!r}')
        except Exception as ex:  # noqa: BLE001
            bad.append(f'{s!r}: {type(ex).__name__}')
    try:
        D(jnp.ones(3), st, 'i,i->i')
        bad.append('accepted 1-d blocks')
    except ValueError:
        pass
    if bad:
        return violation('subscript/blocks validation: ' + '; '.join(bad), signature='c14-parse:' + ';'.join(bad)[:120], kind='parse')
    return ok(obligations=7, nontrivial=True, sample=dict(case='constructor validation'))


def replay(key, model, info):
    from furax._base.dense import DenseBlockDiagonalOperator as D
    twin = False
    if key and key[0] == 'twin':
        key, twin = key[1], True
    key = tuple(key)
    kind = info.get('kind')
    if key[0] == 'parse' or kind in ('ctor', 'struct', 'T-exc', 'T-unusable', 'T-struct', 'must-transpose'):
        r = run_case(key)
        return r['status'] == 'violation', r.get('what', 'ok')
    _, s, layout = key
    bst, xst = _structs(s, layout)
    b, x = model_tree(model, 'b', bst), model_tree(model, 'x', xst)
    op = D(b, xst, s)
    y = model_tree(model, 'y', op.out_structure())
    if kind == 'mv':
        if layout in ('perleaf', 'perleaf-mixed'):
            want = jax.tree.map(lambda bl, xl: np.einsum(s, np.asarray(bl), np.asarray(xl)), b, x)
        else:
            want = jax.tree.map(lambda xl: np.einsum(s, np.asarray(b), np.asarray(xl)), x)
        close, msg = trees_close(op.mv(x), want)
        return (not close), f'mv vs einsum for {s!r}: {msg}'
    dot = lambda a, c: float(sum(jnp.vdot(u, v) for u, v in zip(jax.tree.leaves(a), jax.tree.leaves(c))))  # noqa: E731
    if kind == 'adjoint':
        aty = op.T.mv(y)
        if twin:
            aty = jax.tree.map(lambda t: 2 * t, aty)
        l, r = dot(op.mv(x), y), dot(x, aty)
        return abs(l - r) > 1e-7 * max(1, abs(l), abs(r)), f'{s!r} -> {op.T.subscripts!r}: <Ax,y>={l} <x,A.T y>={r}'
    close, msg = trees_close(op.T.T.mv(x), op.mv(x))
    return (not close), f'T.T for {s!r}: {msg}'
