"""C04 - application is linear and as_matrix() (generic and every override) is its faithful dense form."""
from __future__ import annotations

import itertools
import random

import jax
import jax.numpy as jnp
import numpy as np

from .. import interp as E
from ..catalogue import FAM, Builder, show
from ..common import Decider, S, describe_struct, model_tree, pairs, structs_equal, trees_close
from ..harness import inconclusive, ok, skipped, violation
from ..poly import Poly
from ..programs import build_concrete, params_from_model, sym_eval
from .c01 import _tuplify
from .c10 import linear_matrix

ID = 'C04'
LEVEL = 'other'
TECHNIQUE = 'jaxpr-level symbolic execution (fori_loop unrolled) of mv, op.as_matrix() and AbstractLinearOperator.as_matrix(op) + z3; dense form compared with the coefficient matrix extracted from mv (complex-valued family: op(x) = as_matrix() @ x exactly in Q(i))'
EXPLANATION = ('For each operator (all float parameters symbolic) z3 decides (i) op(a x + b y) = a op(x) + b op(y) with symbolic scalars a, b '
               'and (ii) that the traced matrix of both the generic as_matrix (column loop unrolled) and the class\'s own override equals, '
               'entry by entry, the coefficient of x_j in the i-th output of the traced mv (pytree leaves in order, row-major) - i.e. '
               'column j is op(e_j) for ALL parameter values.')
FUNCTIONS = ['AbstractLinearOperator.as_matrix', 'AdditionOperator.as_matrix', 'IdentityOperator.as_matrix', 'HomothetyOperator.as_matrix', 'DiagonalOperator.as_matrix',
             'BlockRow/BlockDiagonal/BlockColumnOperator.as_matrix', 'AbstractRavelOrReshapeOperator.as_matrix', 'SymmetricBandToeplitzOperator.as_matrix', 'every mv']
BOUNDS = {'quick': 'every catalogue leaf of 4 families (in_size <= 12) + leaf.T + closed-form leaf.I + seeded 120 composites (products, sums, blocks)',
          'thorough': 'same + up to 4 000 composites per family (all with in_size <= 14)'}
BOUNDS['quick'] += '; complex-valued family: 12 leaves with symbolic real and imaginary parts (dense, diagonal, broadcast diagonal, scalar, index, reshape, move-axis, pytree), their lazy/own transposes, 14 composites and their transposes, complex scalars a, b; 9 operators with complex parameters on a REAL input structure (output dtype wider than the input dtype)'
BOUNDS['thorough'] += '; complex-valued family: all products and sums of 7 leaves and their transposes'
STUBS = ['as_matrix() of the lazy inverse (jnp.linalg.inv -> LU primitives) is not encodable: not claimed']
ASSUMPTIONS = ['exact real arithmetic (complex-valued family: exact arithmetic in Q(i))', 'inverted scalars != 0']
RULE = 'case = operator expression; non-trivial = symbolic parameters or structure-changing operator; distinct keys'
BUDGET = {'quick': 400, 'thorough': 2400}
CLOSED_INV = {'vec': ['k', 'D', 'I3'], 'mat': ['k', 'D0', 'D1', 'D2', 'Mv', 'Mn'], 'stokes': ['R', 'Rs', 'k', 'Dq', 'Id'], 'tree': ['k', 'D']}


def cases(tier, seed):
    from . import c01
    rnd = random.Random(f'c04-{seed}')
    out = []
    for fam in ('vec', 'mat', 'stokes', 'tree'):
        base = [('leaf', n, 0) for n in FAM[fam]]
        progs = list(base) + [('T', b) for b in base] + [('I', ('leaf', n, 0)) for n in CLOSED_INV[fam]]
        comp = [e for e in c01.gen_programs(fam, 'quick', seed) if not _has_lazy(fam, e)]
        rnd.shuffle(comp)
        progs += ([e for e in c01.gen_programs(fam, 'thorough', seed) if not _has_lazy(fam, e)][:4000] if tier == 'thorough' else comp[:30])
        out += [(fam, e) for e in progs]
    # block operators over a dict whose keys were inserted in non-sorted order (pytree order = sorted keys)
    Lf = lambda n, i=0: ('leaf', n, i)  # noqa: E731
    for kind, blocks in (('row', (Lf('A'), Lf('D', 1))), ('row', (Lf('A'), Lf('D', 1), Lf('Tz', 2))), ('col', (Lf('A'), Lf('W', 1))), ('col', (Lf('W'), Lf('A', 1), Lf('D', 2))),
                         ('diag', (Lf('A'), Lf('W', 1))), ('diag', (Lf('W'), Lf('D', 1), Lf('V', 2)))):
        out.append(('vec', (kind, 'udict', blocks)))
        out.append(('vec', ('T', (kind, 'udict', blocks))))
    from ..catalogue import other_stokes_programs
    out += [(fam, e) for fam in ('iquv', 'qu') for e in other_stokes_programs(fam) if not _has_lazy_other(e)]
    from .. import cplx
    out += [('cplx', e) for e in cplx.expressions(tier)]
    out += [('cplx', e) for e in cplx.real_input_expressions()]
    return out


def _has_lazy_other(e):
    """IQUV / QU families: only the rotations have a closed-form inverse."""
    if not isinstance(e, tuple):
        return False
    if e[0] == 'I' and not (e[1][0] == 'leaf' and e[1][1] in ('R', 'R2', 'Rs')):
        return True
    return any(_has_lazy_other(c) for c in e[1:] if isinstance(c, tuple))


def _has_lazy(fam, e):
    tag = e[0]
    if tag == 'leaf':
        return False
    if tag == 'lazyI':
        return True
    if tag == 'I':
        inner = e[1]
        if inner[0] == 'leaf' and inner[1] in CLOSED_INV[fam]:
            return False
        return True
    if tag in ('T', 'neg', 'pos', 'red', 'mulk', 'kmul', 'divk'):
        return _has_lazy(fam, e[1])
    if tag in ('@', '+', '-'):
        return any(_has_lazy(fam, c) for c in e[1:])
    if tag in ('comp', 'sum'):
        return any(_has_lazy(fam, c) for c in e[1])
    return any(_has_lazy(fam, c) for c in e[2])


def twins():
    return [('vec', ('leaf', 'W', 0)), ('mat', ('leaf', 'D0', 0))]


def run_case(key, twin=False):
    if key and key[0] == 'twin':
        return run_case(key[1], twin=True)
    from furax._base.core import AbstractLinearOperator
    if key[0] == 'cplx':
        from .. import cplx
        return cplx.check_dense(_tuplify(key[1]), twin)
    fam, e = key
    bld = Builder(fam)
    try:
        op0 = build_concrete(fam, e)
        xin, yout = op0.in_structure(), op0.out_structure()
    except ValueError as ex:
        return skipped(f'ill-typed: {str(ex)[:60]}')
    except Exception as ex:  # noqa: BLE001
        return skipped(f'construction raises {type(ex).__name__}')
    nin, nout = op0.in_size(), op0.out_size()
    if nin > 14 or nout > 16:
        return skipped('larger than the bound')
    ctx = E.Ctx()
    dec = Decider()
    assume = bld.assumptions(e)
    pst = bld.structs(e)
    res = []
    x, y = E.symbols('x', xin), E.symbols('y', xin)
    # (i) linearity
    sc = S()
    lhs, ls, _ = E.run(ctx, lambda p, a, b, x, y: bld.build(e, list(p)).mv(jax.tree.map(lambda u, v: a * u + b * v, x, y)),
                       [('p', pst, 'sym'), ('a', sc, 'sym'), ('b', sc, 'sym'), ('x', xin, 'sym'), ('y', xin, 'sym')])
    rhs, _, _ = E.run(ctx, lambda p, a, b, x, y: (lambda op: jax.tree.map(lambda u, v: a * u + b * v, op.mv(x), op.mv(y)))(bld.build(e, list(p))),
                      [('p', pst, 'sym'), ('a', sc, 'sym'), ('b', sc, 'sym'), ('x', xin, 'sym'), ('y', xin, 'sym')])
    if not structs_equal(ls, yout):
        return skipped('mv does not honour out_structure (C05)')
    res.append(('linearity', dec.decide(ctx, pairs(lhs, rhs, ctx), assumptions=assume)))
    # (ii) dense forms
    mvx, _, _ = E.run(ctx, lambda p, x: bld.build(e, list(p)).mv(x), [('p', pst, 'sym'), ('x', xin, 'sym')])
    try:
        W = linear_matrix(E.flat_elems(mvx, ctx), E.flat_elems(x))
    except ValueError:
        W = None
        res.append(('mv is a linear form in x', type('R', (), {'status': 'sat', 'model': {}, 'digest': ''})()))
    if W is not None:
        if twin:
            W = W.copy()
            W[0, 0] = W[0, 0] + 1
        for name, f in (('generic as_matrix', lambda op: AbstractLinearOperator.as_matrix(op)), ('as_matrix override', lambda op: op.as_matrix())):
            if name == 'as_matrix override' and type(op0).as_matrix is AbstractLinearOperator.as_matrix:
                continue
            try:
                M, ms, _ = E.run(ctx, lambda p: f(bld.build(e, list(p))), [('p', pst, 'sym')])
            except E.Unsupported as ex:
                if "'lu'" in str(ex) or 'triangular_solve' in str(ex):
                    continue  # AbstractLazyInverseOperator.as_matrix (jnp.linalg.inv): not claimed, see STUBS
                raise
            if tuple(ms.shape) != (nout, nin):
                return violation(f'{name} of {show(e)} has shape {ms.shape}, expected {(nout, nin)}', signature=f'c04-shape:{name}:{fam}:{show(e)}', kind='shape')
            res.append((name, dec.decide(ctx, pairs(M, W, ctx), assumptions=assume)))
    common = dict(prims=sorted(ctx.prims), **dec.stats())
    nob = common.pop('obligations')
    bad = [(n, r) for n, r in res if r.status != 'unsat']
    if not bad:
        return ok(obligations=nob, nontrivial=len(pst) > 0 or nin != nout, sample=dict(operator=show(e), family=fam, cls=type(op0).__name__,
                                                                                  matrix=[nout, nin], checks=[n for n, _ in res], verdict='unsat'), **common)
    if any(r.status == 'unknown' for _, r in bad):
        return inconclusive('solver unknown', obligations=nob, **common)
    n, r = bad[0]
    return violation(f'{n} fails for {show(e)} [{fam}] ({type(op0).__name__})', model=r.model, signature=f'c04-{n}:{fam}:{show(e)}', kind=n, twin=twin, obligations=nob, **common)


def replay(key, model, info):
    from furax._base.core import AbstractLinearOperator
    twin = False
    if key and key[0] == 'twin':
        key, twin = key[1], True
    key = _tuplify(key)
    fam, e = key
    kind = info.get('kind')
    if fam == 'cplx':
        from .. import cplx
        if kind in ('shape', 'raises'):
            r = cplx.check_dense(e)
            return r['status'] == 'violation', r.get('what', 'ok')
        return cplx.replay(e, model, kind, twin)
    if kind == 'shape':
        r = run_case(key)
        return r['status'] == 'violation', r.get('what', 'ok')
    params = params_from_model(fam, e, model)
    op = Builder(fam).build(e, params)
    x = model_tree(model, 'x', op.in_structure())
    y = model_tree(model, 'y', op.in_structure())
    if kind == 'linearity':
        a = float(model_tree(model, 'a', S()))
        b = float(model_tree(model, 'b', S()))
        l = op.mv(jax.tree.map(lambda u, v: a * u + b * v, x, y))
        r = jax.tree.map(lambda u, v: a * u + b * v, op.mv(x), op.mv(y))
        close, msg = trees_close(l, r)
        return (not close), f'linearity of {show(e)}: {msg}'
    M = np.asarray(AbstractLinearOperator.as_matrix(op) if kind == 'generic as_matrix' else op.as_matrix())
    # independent dense form: apply op to every basis vector
    leaves, tdef = jax.tree.flatten(jax.tree.map(lambda l: jnp.zeros(l.shape, l.dtype), op.in_structure()))
    cols = []
    for li, leaf in enumerate(leaves):
        for j in range(leaf.size):
            z = list(leaves)
            z[li] = leaf.ravel().at[j].set(1).reshape(leaf.shape)
            out = op.mv(jax.tree.unflatten(tdef, z))
            cols.append(np.concatenate([np.asarray(o).ravel() for o in jax.tree.leaves(out)]))
    W = np.stack(cols, axis=1)
    if twin:
        W[0, 0] += 1
    if M.shape != W.shape:
        return True, f'shape {M.shape} vs {W.shape}'
    close, msg = trees_close(M, W)
    return (not close), f'{kind} of {show(e)}: {msg}'
