"""C08 - algebraic tags (lineax tags and furax's orthogonal/square decorators) are truthful for all parameter values."""
from __future__ import annotations

import itertools
import zlib

import jax
import jax.numpy as jnp
import numpy as np

from .. import interp as E
from ..catalogue import FAM, Builder, show
from ..common import Decider, S, describe_struct, model_tree, pairs, structs_equal, trees_close
from ..harness import inconclusive, ok, skipped, violation
from ..poly import Poly
from ..programs import build_concrete, params_from_model, sym_eval
from .c01 import _tuplify
from .c10 import linear_matrix

ID = 'C08'
LEVEL = 'other'
TECHNIQUE = 'jaxpr-level symbolic execution of mv -> coefficient matrix in the parameters + z3 on the tagged matrix property (QF_NRA for semidefiniteness); also for every strict-diagonal specification the constructor accepts'
EXPLANATION = ('Every concrete operator class found by walking the subclasses of AbstractLinearOperator is instantiated from the catalogue; '
               'for each lineax tag that answers True (and for the orthogonal/square decorators, detected from the rewired methods) the '
               'coefficient matrix M(params) of the traced mv is extracted and z3 decides the matrix property for ALL parameter values: '
               'M = M^T and A.T is A; off-diagonal / triangular / tridiagonal entries vanish; x^T M x >= 0 (<= 0); M^T M = I and A.I acts as A.T; '
               'equal structures. Composites must answer False to every tag.')
FUNCTIONS = ['AbstractLinearOperator.__init_subclass__/_monkey_patch_operator', 'diagonal/symmetric/orthogonal/square/lower_triangular/upper_triangular/positive_semidefinite/negative_semidefinite',
             'IdentityOperator', 'HomothetyOperator', 'DiagonalOperator', 'DiagonalInverseOperator', 'HWPOperator', 'SymmetricBandToeplitzOperator', 'QURotationOperator',
             'QURotationTransposeOperator', 'ToastObservationMatrixOperator']
BOUNDS = {'quick': 'six 3x3 toy operators declared with the tag decorators x {op, .T, .T.T, TransposeOperator(op), TransposeOperator(TransposeOperator(op))}; every catalogue leaf of 4 families + leaf.T + leaf.I (closed forms) + 40 composites; all 7 lineax tags + orthogonal + square; every strict-diagonal specification of the C11 family that the constructor accepts (a third of the single-leaf ones in the quick tier)', 'thorough': 'same + up to 3 000 composites per family'}
STUBS = []
ASSUMPTIONS = ['real arithmetic', 'a class without a catalogue instance is reported as uncovered in the evidence, not as passing']
RULE = 'case = operator expression; non-trivial = at least one tag/decorator is True for it; distinct keys'
BUDGET = {'quick': 300, 'thorough': 1200}

TAGGED_LEAVES = {'vec': ['k', 'D', 'Tz', 'I3', 'Spd'], 'mat': ['k', 'D0', 'D1', 'Tz', 'To'], 'stokes': ['H', 'R', 'Dq', 'k'], 'tree': ['k', 'D']}
TAGS = ['is_symmetric', 'is_diagonal', 'is_lower_triangular', 'is_upper_triangular', 'is_tridiagonal', 'is_positive_semidefinite', 'is_negative_semidefinite']


def cases(tier, seed):
    from . import c01, c04
    import random
    rnd = random.Random(f'c08-{seed}')
    out = [('toast',), ('classes',)]
    for fam in ('vec', 'mat', 'stokes', 'tree'):
        base = [('leaf', n, 0) for n in FAM[fam]]
        progs = list(base) + [('T', b) for b in base] + [('I', ('leaf', n, 0)) for n in c04.CLOSED_INV[fam]]
        comp = [e for e in c01.gen_programs(fam, 'quick', seed) if not c04._has_lazy(fam, e)]
        rnd.shuffle(comp)
        progs += ([e for e in c01.gen_programs(fam, 'thorough', seed) if not c04._has_lazy(fam, e)][:3000] if tier == 'thorough' else comp[:10])
        out += [('op', fam, e) for e in progs]
        # composites of tagged leaves: a tag must not leak to a composite whose matrix lacks the property
        tagged = TAGGED_LEAVES[fam]
        for a in tagged:
            for b in tagged:
                out.append(('op', fam, ('@', ('leaf', a, 0), ('leaf', b, 1))))
                out.append(('op', fam, ('+', ('leaf', a, 0), ('leaf', b, 1))))
                out.append(('op', fam, ('comp', (('leaf', a, 0), ('leaf', b, 1), ('leaf', a, 2)))))
            out.append(('op', fam, ('kmul', ('leaf', a, 0), 0)))
            out.append(('op', fam, ('diag', 'list', (('leaf', a, 0), ('leaf', a, 1)))))
    # every specification the STRICT diagonal constructor accepts yields an operator tagged diagonal/symmetric/square: the tags
    # must hold for whatever is accepted (the refusals are what keeps them true)
    # lazy inverses: a tag answered by InverseOperator(A) transfers to A (the inverse of an invertible matrix is symmetric /
    # diagonal / lower or upper triangular / positive or negative definite exactly when the matrix is), so it is decided on A
    from ..catalogue import other_stokes_programs
    for fam in ('vec', 'mat', 'stokes', 'tree', 'iquv', 'qu'):
        for n in FAM[fam]:
            out.append(('lazyinv', fam, ('leaf', n, 0)))
            out.append(('lazyinv', fam, ('T', ('leaf', n, 0))))
    for a, b in (('A', 'D'), ('Spd', 'Tz'), ('Tz', 'D'), ('Nsym', 'Spd')):
        out.append(('lazyinv', 'vec', ('@', ('leaf', a, 0), ('leaf', b, 1))))
        out.append(('lazyinv', 'vec', ('+', ('leaf', a, 0), ('leaf', b, 1))))
    # the tag decorators themselves: a toy operator declared with each of the library's decorators (its matrix has the property for all
    # parameter values), then its transpose (lazy unless the decorator rewires it), the transpose of that, and two lazy wrappers built by hand
    for d in DECORATORS:
        for form in ('op', 'T', 'TT', 'lazyT', 'lazyTT'):
            out.append(('deco', d, form))
    from . import c11
    specs = [k for k in c11.cases(tier, seed) if k[0] == 'diag' and k[4]]
    for k in specs:
        if len(k[1]) > 1 or tier == 'thorough' or zlib.crc32(repr(k).encode()) % 3 == 0:
            out.append(('spec', k))
    return out


def twins():
    return [('op', 'vec', ('leaf', 'A', 0)), ('op', 'stokes', ('leaf', 'Pol', 0))]


def _tags(op, twin=False):
    import lineax as lx
    t = {name: bool(getattr(lx, name)(op)) for name in TAGS}
    cls = type(op)
    t['orthogonal'] = cls.inverse is cls.transpose and cls.out_structure is cls.in_structure and not isinstance(op, _mv_free())
    t['square'] = cls.out_structure is cls.in_structure
    if twin:
        t['is_symmetric'] = True
        t['orthogonal'] = True
    return t


def _mv_free():
    from furax._base.axes import MoveAxisOperator
    return (MoveAxisOperator,)


def _check_matrix(tags, W, op0, ctx, dec, assume, x, nin):
    """Returns list of (name, Result-like)."""
    res = []
    n, m = W.shape
    zero = Poly()
    def pairs_zero(cond):
        return [(W[i, j], zero) for i in range(n) for j in range(m) if cond(i, j)]
    if tags['is_symmetric']:
        if n != m:
            res.append(('symmetric (square)', None))
        else:
            res.append(('symmetric', dec.decide(ctx, [(W[i, j], W[j, i]) for i in range(n) for j in range(i)], assumptions=assume)))
    if tags['is_diagonal']:
        res.append(('diagonal', dec.decide(ctx, pairs_zero(lambda i, j: i != j), assumptions=assume)))
    if tags['is_lower_triangular']:
        res.append(('lower triangular', dec.decide(ctx, pairs_zero(lambda i, j: j > i), assumptions=assume)))
    if tags['is_upper_triangular']:
        res.append(('upper triangular', dec.decide(ctx, pairs_zero(lambda i, j: j < i), assumptions=assume)))
    if tags['is_tridiagonal']:
        res.append(('tridiagonal', dec.decide(ctx, pairs_zero(lambda i, j: abs(i - j) > 1), assumptions=assume)))
    for tag, sign in (('is_positive_semidefinite', 1), ('is_negative_semidefinite', -1)):
        if tags[tag]:
            xs = E.flat_elems(x)
            q = Poly()
            for i in range(n):
                for j in range(m):
                    q = q + xs[i] * W[i, j] * xs[j]
            import z3
            res.append((tag[3:], dec.decide(ctx, None, assumptions=assume,
                                            goal=(lambda enc, q=q, sign=sign: (enc.term(q) < 0) if sign > 0 else (enc.term(q) > 0)))))
    if tags['orthogonal']:
        if n != m:
            res.append(('orthogonal (square)', None))
        else:
            prs = []
            for i in range(n):
                for j in range(n):
                    acc = Poly()
                    for k in range(n):
                        acc = acc + W[k, i] * W[k, j]
                    prs.append((acc, Poly.const(1 if i == j else 0)))
            res.append(('orthogonal M^T M = I', dec.decide(ctx, prs, assumptions=assume)))
    return res


def run_case(key, twin=False):
    if key and key[0] == 'twin':
        return run_case(key[1], twin=True)
    if key[0] == 'classes':
        return _classes()
    if key[0] == 'toast':
        return _toast()
    if key[0] == 'spec':
        return _spec(key[1])
    if key[0] == 'lazyinv':
        return _lazyinv(key[1], key[2])
    if key[0] == 'deco':
        return _deco(key[1], key[2])
    _, fam, e = key
    bld = Builder(fam)
    try:
        op0 = build_concrete(fam, e)
        xin, yout = op0.in_structure(), op0.out_structure()
    except ValueError as ex:
        return skipped(f'ill-typed: {str(ex)[:60]}')
    except Exception as ex:  # noqa: BLE001
        return skipped(f'construction raises {type(ex).__name__}')
    tags = _tags(op0, twin)
    active = [k for k, v in tags.items() if v]
    if not active:
        return ok(obligations=0, nontrivial=False, tag_queries=len(tags), sample=None)
    if op0.in_size() > 14:
        return skipped('larger than the bound')
    ctx = E.Ctx()
    dec = Decider()
    assume = bld.assumptions(e)
    pst = bld.structs(e)
    x = E.symbols('x', xin)
    res = []
    if tags['square'] and not twin:
        # `square` rewires out_structure = in_structure: the real output must then have the input structure
        _, real_out, _ = E.run(ctx, lambda p, x: bld.build(e, list(p)).mv(x), [('p', pst, 'sym'), ('x', xin, 'sym')])
        if not structs_equal(real_out, xin):
            return violation(f'{type(op0).__name__} is declared square but maps {describe_struct(xin)} to {describe_struct(real_out)}',
                             signature=f'c08-square:{type(op0).__name__}', kind='square')
    mvx, _, _ = E.run(ctx, lambda p, x: bld.build(e, list(p)).mv(x), [('p', pst, 'sym'), ('x', xin, 'sym')])
    try:
        W = linear_matrix(E.flat_elems(mvx, ctx), E.flat_elems(x))
    except ValueError:
        return inconclusive('mv is not a linear form in x (C04)')
    res = _check_matrix(tags, W, op0, ctx, dec, assume, x, op0.in_size())
    if tags['is_symmetric'] and not twin and op0.T is not op0:
        return violation(f'{type(op0).__name__} is tagged symmetric but A.T is not A', signature=f'c08-T-is-A:{type(op0).__name__}', kind='T-is-A')
    if tags['orthogonal'] and not twin:
        a, _ = sym_eval(ctx, fam, e, lambda op, x: op.I.mv(x), xin)
        b, _ = sym_eval(ctx, fam, e, lambda op, x: op.T.mv(x), xin)
        res.append(('A.I acts as A.T', dec.decide(ctx, pairs(a, b, ctx), assumptions=assume)))
        c, _ = sym_eval(ctx, fam, e, lambda op, x: op.T.mv(op.mv(x)), xin)
        res.append(('A.T(A x) = x', dec.decide(ctx, pairs(c, x, ctx), assumptions=assume)))
    common = dict(prims=sorted(ctx.prims), **dec.stats())
    nob = common.pop('obligations')
    bad = [(n, r) for n, r in res if r is None or r.status != 'unsat']
    if not bad:
        return ok(obligations=nob, nontrivial=True, sample=dict(operator=show(e), cls=type(op0).__name__, tags=active, verdict='unsat'), **common)
    if any(r is not None and r.status == 'unknown' for _, r in bad):
        return inconclusive('solver unknown: ' + bad[0][0], obligations=nob, **common)
    n, r = bad[0]
    return violation(f'{type(op0).__name__} ({show(e)}) carries tag {active} but "{n}" fails for some parameter values', model=(r.model if r is not None else {}),
                     signature=f'c08-{n}:{type(op0).__name__}', kind=n, twin=twin, obligations=nob, tags=active, **common)


def _lazyinv(fam, e):
    from furax._base.core import InverseOperator
    e = _tuplify(e)
    bld = Builder(fam)
    try:
        op0 = build_concrete(fam, e)
        xin = op0.in_structure()
        inv0 = InverseOperator(op0)
    except Exception:  # noqa: BLE001
        return ok(obligations=0, nontrivial=False, tag_queries=0, sample=None)     # not square / ill-typed: no inverse, no tag
    tags = _tags(inv0)
    tags['orthogonal'] = False
    active = [t for t, v in tags.items() if v and t != 'square']
    if tags['square'] and not structs_equal(op0.in_structure(), op0.out_structure()):
        return violation(f'InverseOperator({show(e)}) is declared square but its operand is not', signature='c08-lazyinv-square', kind='square')
    if not active:
        return ok(obligations=0, nontrivial=False, tag_queries=len(tags), sample=None)
    if 'is_tridiagonal' in active:
        return inconclusive('tridiagonal tag on a lazy inverse: does not transfer to the operand')
    if op0.in_size() > 14:
        return skipped('larger than the bound')
    ctx = E.Ctx()
    dec = Decider()
    assume = bld.assumptions(e)
    pst = bld.structs(e)
    x = E.symbols('x', xin)
    mvx, _, _ = E.run(ctx, lambda p, x: bld.build(e, list(p)).mv(x), [('p', pst, 'sym'), ('x', xin, 'sym')])
    try:
        W = linear_matrix(E.flat_elems(mvx, ctx), E.flat_elems(x))
    except ValueError:
        return inconclusive('mv of the operand is not a linear form in x (C04)')
    def det(Mx):
        k = Mx.shape[0]
        if k == 1:
            return Mx[0, 0]
        acc = Poly()
        for j in range(k):
            minor = np.delete(np.delete(Mx, 0, axis=0), j, axis=1)
            term = Mx[0, j] * det(minor)
            acc = acc + term if j % 2 == 0 else acc - term
        return acc
    assume = list(assume)
    if W.shape[0] == W.shape[1] and W.shape[0] <= 4:
        d_ = det(W)
        assume.append(lambda enc, d_=d_: enc.term(d_) != 0)     # only invertible operands have an inverse to speak of
    res = _check_matrix(tags, W, op0, ctx, dec, assume, x, op0.in_size())
    common = dict(prims=sorted(ctx.prims), **dec.stats())
    nob = common.pop('obligations')
    bad = [(n, r) for n, r in res if r is None or r.status != 'unsat']
    if not bad:
        return ok(obligations=nob, nontrivial=True, sample=dict(operator=f'InverseOperator({show(e)})', tags=active, verdict='unsat (decided on the operand)'), **common)
    if any(r is not None and r.status == 'unknown' for _, r in bad):
        return inconclusive('solver unknown: ' + bad[0][0], obligations=nob, **common)
    n, r = bad[0]
    return violation(f'InverseOperator({show(e)}) [{fam}] answers {active}, but its operand is not "{n}" for some parameter values (and then neither is the inverse)',
                     model=(r.model if r is not None else {}), signature=f'c08-lazyinv-{n}:{type(op0).__name__}', kind=n, obligations=nob, tags=active, **common)


DECORATORS = ['lower_triangular', 'upper_triangular', 'symmetric', 'diagonal', 'positive_semidefinite', 'negative_semidefinite']
_TOYS = {}


def _toy(d):
    """A 3x3 toy operator declared with the library decorator `d`; its matrix has the declared property for every w (6 parameters)."""
    if d in _TOYS:
        return _TOYS[d]
    from furax._base import core

    def rows(w, x):
        if d == 'lower_triangular':
            return [w[0] * x[0], w[1] * x[0] + w[2] * x[1], w[3] * x[0] + w[4] * x[1] + w[5] * x[2]]
        if d == 'upper_triangular':
            return [w[0] * x[0] + w[1] * x[1] + w[3] * x[2], w[2] * x[1] + w[4] * x[2], w[5] * x[2]]
        if d == 'symmetric':
            return [w[0] * x[0] + w[1] * x[1] + w[3] * x[2], w[1] * x[0] + w[2] * x[1] + w[4] * x[2], w[3] * x[0] + w[4] * x[1] + w[5] * x[2]]
        if d == 'diagonal':
            return [w[0] * x[0], w[1] * x[1], w[2] * x[2]]
        sg = 1.0 if d == 'positive_semidefinite' else -1.0
        return [sg * w[0] * w[0] * x[0], sg * w[1] * w[1] * x[1], sg * w[2] * w[2] * x[2]]

    class ToyTagged(core.AbstractLinearOperator):
        w: jax.Array

        def mv(self, x):
            return jnp.concatenate([jnp.reshape(r, (1,)) for r in rows(self.w, x)])

        def in_structure(self):
            return jax.ShapeDtypeStruct((3,), self.w.dtype)

    ToyTagged.__name__ = ToyTagged.__qualname__ = 'Toy_' + d
    _TOYS[d] = getattr(core, d)(ToyTagged)
    return _TOYS[d]


def _deco_build(d, form, w):
    from furax._base.core import TransposeOperator
    op = _toy(d)(w)
    if form == 'T':
        return op.T
    if form == 'TT':
        return op.T.T
    if form == 'lazyT':
        return TransposeOperator(op)
    if form == 'lazyTT':
        return TransposeOperator(TransposeOperator(op))
    return op


def _deco(d, form):
    ws = S(6)
    op0 = _deco_build(d, form, jnp.arange(1.0, 7.0, dtype=ws.dtype))
    xin = op0.in_structure()
    tags = _tags(op0)
    tags['orthogonal'] = False
    active = [t for t, v in tags.items() if v]
    if form == 'op' and not tags['is_' + d]:
        return violation(f'decorator {d} does not register its tag on the decorated class', signature=f'c08-deco-unregistered:{d}', kind='unregistered')
    if not active:
        return ok(obligations=0, nontrivial=False, tag_queries=len(tags), sample=None)
    ctx = E.Ctx()
    dec = Decider()
    x = E.symbols('x', xin)
    mvx, _, _ = E.run(ctx, lambda w, x: _deco_build(d, form, w).mv(x), [('w', ws, 'sym'), ('x', xin, 'sym')])
    try:
        W = linear_matrix(E.flat_elems(mvx, ctx), E.flat_elems(x))
    except ValueError:
        return inconclusive('mv is not a linear form in x (C04)')
    res = _check_matrix(tags, W, op0, ctx, dec, [], x, 3)
    common = dict(prims=sorted(ctx.prims), **dec.stats())
    nob = common.pop('obligations')
    bad = [(n, r) for n, r in res if r is None or r.status != 'unsat']
    if not bad:
        return ok(obligations=nob, nontrivial=True, sample=dict(operator=f'{type(op0).__name__}[{d}/{form}]', tags=active, verdict='unsat'), **common)
    if any(r is not None and r.status == 'unknown' for _, r in bad):
        return inconclusive('solver unknown: ' + bad[0][0], obligations=nob, **common)
    n, r = bad[0]
    return violation(f'{type(op0).__name__} ({form} of a toy operator declared @{d}) carries tag {active} but "{n}" fails for some parameter values',
                     model=(r.model if r is not None else {}), signature=f'c08-deco-{n}:{d}/{form}', kind=n, obligations=nob, tags=active, **common)


def _spec_build(k, v):
    from . import c11
    _, shapes, vs, ax, strict = k
    return c11._cls(strict)(v, axis_destination=ax, in_structure=c11._ins(shapes))


def _spec(k):
    k = _tuplify(k)
    vs = k[2]
    try:
        op0 = _spec_build(k, jnp.ones(vs))
        xin = op0.in_structure()
        real_out = jax.eval_shape(op0.mv, xin)
    except Exception:  # noqa: BLE001
        return ok(obligations=0, nontrivial=False, tag_queries=0, sample=None)    # refused (or not applicable): no tag is claimed
    tags = _tags(op0)
    active = [t for t, v in tags.items() if v]
    if not active:
        return ok(obligations=0, nontrivial=False, tag_queries=len(tags), sample=None)
    if (tags['square'] or tags['is_symmetric'] or tags['is_diagonal']) and not structs_equal(real_out, xin):
        return violation(f'{type(op0).__name__}(values{vs}, axis_destination={k[3]}) on {k[1]} is accepted and tagged {active} but maps {describe_struct(xin)} to {describe_struct(real_out)}',
                         signature=f'c08-spec-square:{type(op0).__name__}', kind='square')
    if op0.in_size() > 14:
        return skipped('larger than the bound')
    ctx = E.Ctx()
    dec = Decider()
    x = E.symbols('x', xin)
    mvx, _, _ = E.run(ctx, lambda v, x: _spec_build(k, v).mv(x), [('v', S(*vs), 'sym'), ('x', xin, 'sym')])
    try:
        W = linear_matrix(E.flat_elems(mvx, ctx), E.flat_elems(x))
    except ValueError:
        return inconclusive('mv is not a linear form in x (C04)')
    res = _check_matrix(tags, W, op0, ctx, dec, [], x, op0.in_size())
    if tags['is_symmetric'] and op0.T is not op0:
        return violation(f'{type(op0).__name__} is tagged symmetric but A.T is not A', signature=f'c08-T-is-A:{type(op0).__name__}', kind='T-is-A')
    common = dict(prims=sorted(ctx.prims), **dec.stats())
    nob = common.pop('obligations')
    bad = [(n, r) for n, r in res if r is None or r.status != 'unsat']
    if not bad:
        return ok(obligations=nob, nontrivial=True, sample=dict(operator=f'{type(op0).__name__}{k[1:]}', tags=active, verdict='unsat'), **common)
    if any(r is not None and r.status == 'unknown' for _, r in bad):
        return inconclusive('solver unknown: ' + bad[0][0], obligations=nob, **common)
    n, r = bad[0]
    return violation(f'{type(op0).__name__}{k[1:]} carries tag {active} but "{n}" fails for some values', model=(r.model if r is not None else {}),
                     signature=f'c08-spec-{n}:{type(op0).__name__}', kind=n, obligations=nob, tags=active, **common)


def _toast():
    from furax.toast.obs_matrix import ToastObservationMatrixOperator
    from .c03 import _toast_fixture
    import lineax as lx
    op = ToastObservationMatrixOperator(_toast_fixture())
    true = [t for t in TAGS if getattr(lx, t)(op)]
    if true:
        return violation(f'ToastObservationMatrixOperator of a non-symmetric matrix answers True to {true}', signature='c08-toast', kind='toast')
    if not structs_equal(op.in_structure(), op.out_structure()) or not structs_equal(jax.eval_shape(op.mv, op.in_structure()), op.in_structure()):
        return violation('ToastObservationMatrixOperator is declared square but is not', signature='c08-toast-square', kind='toast')
    return ok(obligations=len(TAGS) + 1, nontrivial=True, sample=dict(operator='ToastObservationMatrixOperator(3x3 non-symmetric CSR)', tags=['square']))


def _all_classes():
    from furax._base.core import AbstractLinearOperator
    import furax.toast.obs_matrix  # noqa: F401
    import furax.operators.toeplitz  # noqa: F401
    import furax.instruments.sat  # noqa: F401
    seen, stack = set(), [AbstractLinearOperator]
    while stack:
        c = stack.pop()
        for s in c.__subclasses__():
            if s not in seen:
                seen.add(s)
                stack.append(s)
    return sorted((c for c in seen if c.__module__.startswith('furax') and not getattr(c, '__abstractmethods__', None)), key=lambda c: c.__name__)


def _classes():
    """Coverage bookkeeping: which concrete classes have a catalogue instance (reported, and must not silently shrink)."""
    from ..programs import optree
    from . import c04
    inst = set()
    for fam in ('vec', 'mat', 'stokes', 'tree'):
        for n in FAM[fam]:
            for e in (('leaf', n, 0), ('T', ('leaf', n, 0))) + ((('I', ('leaf', n, 0)),) if n in c04.CLOSED_INV[fam] else ()):
                try:
                    inst.add(type(build_concrete(fam, e)).__name__)
                except Exception:  # noqa: BLE001
                    pass
    inst |= {'ToastObservationMatrixOperator', 'ToastObservationMatrixTransposeOperator', 'CompositionOperator', 'AdditionOperator',
             'BlockRowOperator', 'BlockColumnOperator', 'BlockDiagonalOperator', 'InverseOperator'}
    classes = [c.__name__ for c in _all_classes()]
    uncovered = [c for c in classes if c not in inst and not c.startswith('Abstract') and not c.startswith('_')]
    return ok(obligations=0, nontrivial=False, sample=dict(classes_found=classes, without_catalogue_instance=uncovered), uncovered=uncovered)


def extra_coverage(results):
    for r in results:
        if r.get('uncovered') is not None:
            return dict(classes_without_instance=r['uncovered'])
    return {}


def replay(key, model, info):
    twin = False
    if key and key[0] == 'twin':
        key, twin = key[1], True
    key = _tuplify(key)
    kind = info.get('kind')
    if key[0] in ('toast', 'classes') or kind in ('square', 'T-is-A'):
        r = run_case(key)
        return r['status'] == 'violation', r.get('what', 'ok')
    if kind == 'unregistered':
        r = run_case(key)
        return r['status'] == 'violation', r.get('what', 'ok')
    if key[0] == 'deco':
        op = _deco_build(key[1], key[2], model_tree(model, 'w', S(6)))
    elif key[0] == 'spec':
        op = _spec_build(key[1], model_tree(model, 'v', S(*key[1][2])))
    elif key[0] == 'lazyinv':
        # the tag is claimed for the inverse; the failing property is evaluated on the inverse of the operand's matrix
        from furax._base.core import AbstractLinearOperator, InverseOperator
        import lineax as lx
        fam, e = key[1], key[2]
        opnd = Builder(fam).build(e, params_from_model(fam, e, model))
        M0 = np.asarray(AbstractLinearOperator.as_matrix(opnd), dtype=float)
        inv = InverseOperator(opnd)
        try:
            Mi = np.linalg.inv(M0)
        except np.linalg.LinAlgError:
            return False, 'operand singular at the model parameters'
        x = np.concatenate([np.asarray(l).ravel() for l in jax.tree.leaves(model_tree(model, 'x', opnd.in_structure()))])
        x = np.linalg.solve(Mi, x) if kind in ('positive_semidefinite', 'negative_semidefinite') else x   # x^T A x = (A x)^T A^-1 (A x)
        y = M0 @ np.linalg.solve(M0, x) if False else x
        tagname = {'symmetric': 'is_symmetric', 'diagonal': 'is_diagonal', 'lower triangular': 'is_lower_triangular', 'upper triangular': 'is_upper_triangular',
                   'positive_semidefinite': 'is_positive_semidefinite', 'negative_semidefinite': 'is_negative_semidefinite'}.get(kind)
        if tagname is None or not getattr(lx, tagname)(inv):
            return False, f'tag {kind} is not claimed by the inverse'
        holds = {'symmetric': lambda: np.allclose(Mi, Mi.T), 'diagonal': lambda: np.allclose(Mi, np.diag(np.diag(Mi))),
                 'lower triangular': lambda: np.allclose(Mi, np.tril(Mi)), 'upper triangular': lambda: np.allclose(Mi, np.triu(Mi)),
                 'positive_semidefinite': lambda: float(np.min(np.linalg.eigvalsh((Mi + Mi.T) / 2))) >= -1e-9,
                 'negative_semidefinite': lambda: float(np.max(np.linalg.eigvalsh((Mi + Mi.T) / 2))) <= 1e-9}[kind]()
        return (not holds), f'InverseOperator({show(e)}) claims {tagname}; the inverse of the operand matrix {M0.tolist()} {"has" if holds else "does not have"} that property'[:400]
    else:
        _, fam, e = key
        params = params_from_model(fam, e, model)
        op = Builder(fam).build(e, params)
    from furax._base.core import AbstractLinearOperator
    M = np.asarray(AbstractLinearOperator.as_matrix(op))
    x = np.concatenate([np.asarray(l).ravel() for l in jax.tree.leaves(model_tree(model, 'x', op.in_structure()))])
    n = M.shape[0]
    checks = {
        'symmetric': lambda: np.allclose(M, M.T), 'symmetric (square)': lambda: M.shape[0] == M.shape[1],
        'diagonal': lambda: np.allclose(M, np.diag(np.diag(M))) if M.shape[0] == M.shape[1] else False,
        'lower triangular': lambda: np.allclose(M, np.tril(M)), 'upper triangular': lambda: np.allclose(M, np.triu(M)),
        'tridiagonal': lambda: np.allclose(M, np.triu(np.tril(M, 1), -1)),
        'positive_semidefinite': lambda: float(x @ M @ x) >= -1e-9, 'negative_semidefinite': lambda: float(x @ M @ x) <= 1e-9,
        'orthogonal M^T M = I': lambda: M.shape[0] == M.shape[1] and np.allclose(M.T @ M, np.eye(n)), 'orthogonal (square)': lambda: M.shape[0] == M.shape[1],
        'A.I acts as A.T': lambda: trees_close(op.I.mv(model_tree(model, 'x', op.in_structure())), op.T.mv(model_tree(model, 'x', op.in_structure())))[0],
        'A.T(A x) = x': lambda: trees_close(op.T.mv(op.mv(model_tree(model, 'x', op.in_structure()))), model_tree(model, 'x', op.in_structure()))[0],
    }
    if kind not in checks:
        return False, f'unknown kind {kind}'
    holds = bool(checks[kind]())
    if twin:
        return (not holds), f'(twin) {kind} does not hold for the model parameters' if not holds else 'holds'
    return (not holds), f'{type(op).__name__}: property "{kind}" {"holds" if holds else "fails"} at the model parameters (matrix {M.tolist()})'[:400]
