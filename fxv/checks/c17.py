"""C17 - pixel coordinates map to flat indices consistently (rounding, validity mask, strides, index dtype)."""
from __future__ import annotations

import itertools

import jax
import jax.numpy as jnp
import numpy as np
import z3

from .. import interp as E
from ..common import Decider, S, f64
from ..harness import inconclusive, ok, skipped, violation
from ..poly import Poly
from .c01 import _tuplify

ID = 'C17'
LEVEL = 'other'
TECHNIQUE = 'jaxpr-level symbolic execution of pixel2index with symbolic REAL coordinates (round-half-even, float->int conversion, validity mask as definitional atoms) + z3 QF_NIRA'
EXPLANATION = ('StokesLandscape.pixel2index is traced for every map shape of the family; coordinates are symbolic reals, round() is an integer atom '
               'with the exact round-half-to-even constraints of XLA, the validity mask and jnp.where are symbolic Booleans/ite. z3 decides, for ALL '
               'coordinates: strictly inside pixel (i1..ik) => index = sum i_k * stride_k (first coordinate fastest); outside the half-pixel frame in '
               'any dimension => -1; on a tie one of the two neighbours (or -1 when the neighbour is outside); integer in-map coordinates are in '
               'bijection with 0..N-1; every integer intermediate fits the chosen dtype (|p| <= 2^30) and the index dtype can hold N-1 (int32 for small maps).')
FUNCTIONS = ['StokesLandscape.pixel2index', 'Landscape.__len__', 'StokesLandscape.__init__ (shape / pixel_shape bookkeeping)']
BOUNDS = {'quick': 'all map shapes with 1-3 dimensions and dims in 1..4 (84 shapes) + (65536, 65536) and (2, 2**31) for the dtype clause; shape= and pixel_shape= constructors',
          'thorough': 'same + dims up to 5'}
STUBS = []
ASSUMPTIONS = ['real-valued coordinates with |p| <= 2^30 (float rounding of the coordinates themselves is outside the claim)',
               'NOT claimed: agreement of HealpixLandscape.world2index with healpy over the sphere (third-party transcendental code) and get_coverage (integer histogram of concrete indices)']
RULE = 'case = map shape x constructor; non-trivial = more than one pixel; distinct keys'
BUDGET = {'quick': 400, 'thorough': 1800}
CASE_TIMEOUT = {'quick': 240, 'thorough': 600}
EXHAUSTIVE = {'quick': True, 'thorough': True}


def cases(tier, seed):
    out = []
    top = 4 if tier == 'quick' else 5
    for nd in (1, 2, 3):
        for shape in itertools.product(range(1, top + 1), repeat=nd):
            out.append(('p2i', shape, 'shape'))
            if sum(shape) % 3 == 0:
                out.append(('p2i', shape, 'pixel_shape'))
    out.append(('p2i', (65536, 65536), 'shape'))
    out.append(('p2i', (2, 2 ** 31), 'shape'))
    out.append(('p2i', (2 ** 31,), 'shape'))
    out.append(('p2i', (2 ** 31 + 1,), 'shape'))
    return out


def twins():
    return [('p2i', (3, 2), 'shape')]


def _landscape(shape, how):
    from furax.landscapes import StokesLandscape

    class Flat(StokesLandscape):
        def world2pixel(self, theta, phi):
            return theta, phi
    if how == 'shape':
        return Flat(tuple(shape), 'I')
    return Flat(None, 'I', pixel_shape=tuple(shape)[::-1])


def run_case(key, twin=False):
    if key and key[0] == 'twin':
        return run_case(key[1], twin=True)
    _, shape, how = key
    shape = tuple(shape)
    ls = _landscape(shape, how)
    pix = shape[::-1]  # first coordinate = fastest axis = last array axis
    if tuple(ls.pixel_shape) != pix or tuple(ls.shape) != shape:
        return violation(f'landscape built with {how}: shape={ls.shape} pixel_shape={ls.pixel_shape}, expected {shape} / {pix}', signature=f'c17-ctor:{how}', kind='ctor')
    nd = len(shape)
    N = int(np.prod([int(s) for s in shape], dtype=object))
    if len(ls) != N or ls.size != N:
        return violation(f'len/size {len(ls)}/{ls.size} != {N}', signature='c17-len', kind='ctor')
    ctx = E.Ctx()
    cst = [S() for _ in range(nd)]
    out, oshape, _ = E.run(ctx, lambda c: ls.pixel2index(*c), [('c', cst, 'sym')])
    if not np.issubdtype(oshape.dtype, np.integer) or (N - 1 > np.iinfo(oshape.dtype).max):
        return violation(f'index dtype {oshape.dtype} cannot hold the largest index of a map of {N} pixels', signature=f'c17-dtype:{N > 2**31}', kind='dtype')
    if N <= 2 ** 30 and np.dtype(oshape.dtype) != np.dtype(np.int32):
        return violation(f'index dtype {oshape.dtype} for a small map of {N} pixels (documented: int32 unless the largest index would overflow)', signature='c17-dtype-small', kind='dtype')
    idx = out[()] if E.is_sym(out) else Poly.const(int(out))
    c = [Poly.var(f'c{k}') for k in range(nd)]
    i = [Poly.var(f'i{k}') for k in range(nd)]
    j = [Poly.var(f'j{k}') for k in range(nd)]
    for k in range(nd):
        ctx.int_atoms.add(f'i{k}')
        ctx.int_atoms.add(f'j{k}')
    strides = [int(np.prod([int(s) for s in pix[:k]], dtype=object)) for k in range(nd)]
    if twin:
        strides = [s + (1 if k == nd - 1 and nd > 1 else 0) for k, s in enumerate(strides)]
        if nd == 1:
            strides = [2]
    dec = Decider(timeout_ms=60000)
    half = z3.RealVal('1/2')
    big = 2 ** 30

    def lin(vs):
        acc = Poly()
        for v, s in zip(vs, strides):
            acc = acc + v * s
        return acc

    def bounded(enc):
        return z3.And(*[z3.And(enc.term(ck) >= -big, enc.term(ck) <= big) for ck in c])

    def inmap(enc, vs):
        return z3.And(*[z3.And(enc.term(v) >= 0, enc.term(v) < int(n)) for v, n in zip(vs, pix)])
    res = []
    huge = N > 2 ** 20 and nd > 1  # value clauses are decided on the small maps; huge maps only carry the dtype / no-overflow clauses
    # P1: strictly inside a pixel
    if not huge:
      res.append(('inside => row-major index', dec.decide(ctx, None, assumptions=[bounded, lambda enc: inmap(enc, i),
               lambda enc: z3.And(*[z3.And(z3.ToReal(enc.term(ik)) - half < enc.term(ck), enc.term(ck) < z3.ToReal(enc.term(ik)) + half) for ik, ck in zip(i, c)])],
               goal=lambda enc: enc.term(idx) != enc.term(lin(i)))))
    # P2: outside the half-pixel frame
    if not huge:
      res.append(('outside => -1', dec.decide(ctx, None, assumptions=[bounded,
               lambda enc: z3.Or(*[z3.Or(enc.term(ck) < -half, enc.term(ck) > int(n) - half) for ck, n in zip(c, pix)])],
               goal=lambda enc: enc.term(idx) != -1)))
    # P3: anywhere (ties included): the result is -1 or the index of a pixel whose centre is within 1/2 in every dimension
    def near(enc):
        return z3.And(*[z3.And(z3.ToReal(enc.term(ik)) - half <= enc.term(ck), enc.term(ck) <= z3.ToReal(enc.term(ik)) + half) for ik, ck in zip(i, c)])
    if not huge:
      res.append(('result is -1 or a nearest pixel', dec.decide(ctx, None, assumptions=[bounded],
               goal=lambda enc: z3.And(enc.term(idx) != -1, z3.Not(z3.Exists([enc.var(f'i{k}') for k in range(nd)],
                                                                                z3.And(inmap(enc, i), near(enc), enc.term(idx) == enc.term(lin(i)))))))))
    # P3b: inside the closed frame the result is never -1 unless a coordinate sits exactly on the outer edge
    if not huge:
      res.append(('interior never -1', dec.decide(ctx, None, assumptions=[bounded,
               lambda enc: z3.And(*[z3.And(enc.term(ck) > -half, enc.term(ck) < int(n) - half) for ck, n in zip(c, pix)])],
               goal=lambda enc: enc.term(idx) == -1)))
    # P4: bijection on integer in-map coordinates (injectivity and range; with N pixels this gives surjectivity)
    ctx2 = ctx
    out2, _, _ = E.run(ctx2, lambda d: ls.pixel2index(*d), [('d', cst, 'sym')])
    idx2 = out2[()] if E.is_sym(out2) else Poly.const(int(out2))
    d = [Poly.var(f'd{k}') for k in range(nd)]
    eqi = lambda enc: z3.And(*[enc.term(ck) == z3.ToReal(enc.term(ik)) for ck, ik in zip(c, i)] + [enc.term(dk) == z3.ToReal(enc.term(jk)) for dk, jk in zip(d, j)])  # noqa: E731
    if not huge:
      res.append(('integer coordinates: injective', dec.decide(ctx2, None, assumptions=[eqi, lambda enc: inmap(enc, i), lambda enc: inmap(enc, j)],
               goal=lambda enc: z3.And(enc.term(idx) == enc.term(idx2), z3.Or(*[enc.term(ik) != enc.term(jk) for ik, jk in zip(i, j)])))))
    if not huge:
      res.append(('integer coordinates: range 0..N-1', dec.decide(ctx2, None, assumptions=[eqi, lambda enc: inmap(enc, i)],
               goal=lambda enc: z3.Or(enc.term(idx) < 0, enc.term(idx) > N - 1))))
    # P5: machine integers.  Float->int conversions must fit for every bounded coordinate; sums/products must fit whenever every
    # coordinate is inside the frame (outside it the validity mask discards the value, so a wrapped intermediate is unobservable:
    # the mask itself only depends on the per-axis conversions).
    allb = [bounded, lambda enc: z3.And(*[z3.And(enc.term(dk) >= -big, enc.term(dk) <= big) for dk in d])]
    conv = [r_ for r_ in ctx.ranges if r_[3].startswith(('convert', 'narrow'))]
    arith = [r_ for r_ in ctx.ranges if not r_[3].startswith(('convert', 'narrow'))]
    if conv:
        res.append(('float->int conversions fit the index dtype', dec.decide(ctx, None, assumptions=allb,
                   goal=lambda enc: z3.Or(*[z3.Or(enc.term(v) < lo, enc.term(v) > hi) for v, lo, hi, _ in conv]))))
    if arith:
        frame = lambda enc: z3.And(*[z3.And(enc.term(v) >= -half, enc.term(v) <= int(n) - half) for vs in (c, d) for v, n in zip(vs, pix)])  # noqa: E731
        res.append(('index arithmetic fits the index dtype inside the frame', dec.decide(ctx, None, assumptions=allb + [frame],
                   goal=lambda enc: z3.Or(*[z3.Or(enc.term(v) < lo, enc.term(v) > hi) for v, lo, hi, _ in arith]))))
    # vacuity guard
    reach = dec.decide(ctx, None, assumptions=[bounded, lambda enc: inmap(enc, i)], goal=lambda enc: z3.BoolVal(True))
    if reach.status != 'sat':
        return inconclusive('assumptions unsatisfiable (vacuous)')
    dec.ok += 1
    common = dict(prims=sorted(ctx.prims), **dec.stats())
    nob = common.pop('obligations')
    bad = [(n, r) for n, r in res if r.status != 'unsat']
    if not bad:
        return ok(obligations=nob, nontrivial=N > 1, sample=dict(shape=list(shape), ctor=how, N=N, dtype=str(oshape.dtype), strides=strides, checks=[n for n, _ in res],
                                                               round_atoms=len(ctx.rounds), range_obligations=len(ctx.ranges), verdict='unsat'), **common)
    if any(r.status == 'unknown' for _, r in bad):
        return inconclusive('solver unknown: ' + bad[0][0] + ' ' + bad[0][1].reason, obligations=nob, **common)
    n, r = bad[0]
    return violation(f'pixel2index on a map of shape {shape}: "{n}" fails', model=r.model, signature=f'c17-{n}:{shape}', kind=n, twin=twin, obligations=nob, **common)


def replay(key, model, info):
    from fractions import Fraction
    twin = False
    if key and key[0] == 'twin':
        key, twin = key[1], True
    key = _tuplify(key)
    _, shape, how = key
    kind = info.get('kind')
    if kind in ('ctor', 'dtype'):
        r = run_case(key)
        return r['status'] == 'violation', r.get('what', 'ok')
    ls = _landscape(shape, how)
    pix = tuple(shape)[::-1]
    nd = len(pix)
    strides = [int(np.prod([int(s) for s in pix[:k]], dtype=object)) for k in range(nd)]
    if twin:
        strides = [s + (1 if k == nd - 1 and nd > 1 else 0) for k, s in enumerate(strides)]
        if nd == 1:
            strides = [2]
    getf = lambda n: float(Fraction(model[n])) if model.get(n) is not None else 0.0  # noqa: E731
    c = [getf(f'c{k}') for k in range(nd)]
    got = int(ls.pixel2index(*[jnp.asarray(v, dtype=jnp.float64) for v in c]))
    # independent expectation
    def expect(c):
        outside = any(v < -0.5 or v > n - 0.5 for v, n in zip(c, pix))
        if outside:
            return {-1}
        cands = [set()]
        opts = []
        for v, n in zip(c, pix):
            lo, hi = int(np.floor(v + 0.5)), int(np.ceil(v - 0.5))
            opts.append({lo, hi})
        res = set()
        for combo in itertools.product(*opts):
            res.add(sum(i * s for i, s in zip(combo, strides)) if all(0 <= i < n for i, n in zip(combo, pix)) else -1)
        return res
    if kind and kind.startswith('integer coordinates'):
        i = [int(Fraction(model.get(f'i{k}', 0))) for k in range(nd)]
        j = [int(Fraction(model.get(f'j{k}', 0))) for k in range(nd)]
        gi = int(ls.pixel2index(*[jnp.asarray(float(v)) for v in i]))
        gj = int(ls.pixel2index(*[jnp.asarray(float(v)) for v in j]))
        N = int(np.prod(pix))
        bad = (gi == gj and i != j) or not (0 <= gi < N)
        return bad, f'pixel2index{tuple(i)}={gi}, pixel2index{tuple(j)}={gj}, N={N}'
    exp = expect(c)
    return (got not in exp), f'pixel2index{tuple(c)} = {got}, expected one of {sorted(exp)} (strides {strides})'
