"""C17 - pixel coordinates map to flat indices consistently (rounding, validity mask, strides, index dtype)."""
from __future__ import annotations

import itertools

import jax
import jax.numpy as jnp
import numpy as np
import z3

from .. import interp as E
from ..common import Decider, S, f64
from ..harness import inconclusive, ok, skipped, violation
from ..poly import Poly
from .c01 import _tuplify

ID = 'C17'
LEVEL = 'other'
TECHNIQUE = 'jaxpr-level symbolic execution of pixel2index with symbolic REAL coordinates (round-half-even, float->int conversion, validity mask as definitional atoms) + z3 QF_NIRA; HEALPix lookup and coverage map compared concretely with healpy / numpy.bincount as a complement'
EXPLANATION = ('StokesLandscape.pixel2index is traced for every map shape of the family; coordinates are symbolic reals, round() is an integer atom '
               'with the exact round-half-to-even constraints of XLA, the validity mask and jnp.where are symbolic Booleans/ite. z3 decides, for ALL '
               'coordinates: strictly inside pixel (i1..ik) => index = sum i_k * stride_k (first coordinate fastest); outside the half-pixel frame in '
               'any dimension => -1; on a tie one of the two neighbours (or -1 when the neighbour is outside); integer in-map coordinates are in '
               'bijection with 0..N-1; every integer intermediate fits the chosen dtype (|p| <= 2^30) and the index dtype can hold N-1.')
FUNCTIONS = ['HealpixLandscape.world2pixel / world2index and StokesLandscape.get_coverage (concrete complement)', 'StokesLandscape.pixel2index', 'Landscape.__len__', 'StokesLandscape.__init__ (shape / pixel_shape bookkeeping)']
BOUNDS = {'quick': 'all map shapes with 1-3 dimensions and dims in 1..4 (84 shapes) + (65536, 65536) and (2, 2**31) for the dtype clause; shape= and pixel_shape= constructors',
          'thorough': 'same + dims up to 5'}
BOUNDS['quick'] += '; concrete complement: HEALPix nside 1-8 (thorough: up to 64), coverage maps'
STUBS = []
ASSUMPTIONS = ['real-valued coordinates with |p| <= 2^30 (float rounding of the coordinates themselves is outside the claim)',
               'HealpixLandscape.world2index vs healpy and get_coverage are NOT decided by the solver (third-party transcendental code; jnp.unique has a data-dependent shape and cannot be traced): '
               'they are compared concretely (healpy ring index on the 16 sub-pixel centres of every pixel, with phi shifted by 0 and +-2 pi; coverage against numpy.bincount) as a complement']
RULE = 'case = map shape x constructor; non-trivial = more than one pixel; distinct keys'
BUDGET = {'quick': 400, 'thorough': 1800}
CASE_TIMEOUT = {'quick': 240, 'thorough': 600}
EXHAUSTIVE = {'quick': True, 'thorough': True}


def cases(tier, seed):
    out = []
    top = 4 if tier == 'quick' else 5
    for nd in (1, 2, 3):
        for shape in itertools.product(range(1, top + 1), repeat=nd):
            out.append(('p2i', shape, 'shape'))
            if sum(shape) % 3 == 0:
                out.append(('p2i', shape, 'pixel_shape'))
    out.append(('p2i', (65536, 65536), 'shape'))
    out.append(('p2i', (2, 2 ** 31), 'shape'))
    out.append(('p2i', (2 ** 31,), 'shape'))
    out.append(('p2i', (2 ** 31 + 1,), 'shape'))
    # concrete complements (no solver): HEALPix lookup against healpy on points strictly inside pixels, coverage = histogram
    for nside in ((1, 2, 4, 8) if tier == 'quick' else (1, 2, 4, 8, 16, 32, 64)):
        out.append(('healpix', nside))
        out.append(('coverage', nside))
    out.append(('coverage-flat', (3, 2)))
    return out


def twins():
    return [('p2i', (3, 2), 'shape')]


def _landscape(shape, how):
    from furax.landscapes import StokesLandscape

    class Flat(StokesLandscape):
        def world2pixel(self, theta, phi):
            return theta, phi
    if how == 'shape':
        return Flat(tuple(shape), 'I')
    return Flat(None, 'I', pixel_shape=tuple(shape)[::-1])


def _interior_directions(nside):
    """Centres of the pixels of the 4x finer map: each lies strictly inside one pixel of the nside map (no boundary ties)."""
    import healpy as hp
    fine = 4 * nside
    theta, phi = hp.pix2ang(fine, np.arange(12 * fine * fine))
    return np.asarray(theta, np.float64), np.asarray(phi, np.float64)


def _healpix(key):
    import healpy as hp
    from furax.landscapes import HealpixLandscape
    _, nside = key
    bad = []
    theta, phi = _interior_directions(nside)
    # the looked-up index is a function of the direction only: landscapes whose MAP VALUES are narrower (float32, float16) get the same
    # float64 directions and must return the same pixels
    for stokes, mdt in (('I', None), ('IQU', None), ('IQU', np.float32), ('QU', np.float16)):
        ls = HealpixLandscape(nside, stokes) if mdt is None else HealpixLandscape(nside, stokes, mdt)
        if len(ls) != 12 * nside * nside or tuple(ls.shape) != (12 * nside * nside,):
            bad.append(f'len/shape {len(ls)}/{ls.shape} for nside {nside}')
        if mdt is not None:
            # directions much closer to the pixel borders (centres of the 64x finer map, 20 000 of them): still strictly interior in
            # float64 (margin ~ 1/128 of a pixel), but any rounding of the angles to the map dtype crosses a border
            fine = 64 * nside
            sel = np.random.default_rng(nside).choice(12 * fine * fine, size=min(20000, 12 * fine * fine), replace=False)
            theta, phi = (np.asarray(a, np.float64) for a in hp.pix2ang(fine, np.sort(sel)))
        for shift in (0.0, 2 * np.pi, -2 * np.pi):
            want = hp.ang2pix(nside, theta, phi)
            got = np.asarray(ls.world2index(jnp.asarray(theta), jnp.asarray(phi + shift)))
            if got.shape != want.shape or not np.issubdtype(got.dtype, np.integer):
                bad.append(f'world2index returns {got.dtype}{got.shape}')
            elif (got != want).any():
                k = int(np.flatnonzero(got != want)[0])
                bad.append(f'nside={nside} theta={theta[k]:.6f} phi={phi[k] + shift:.6f}: world2index={int(got[k])}, healpy ring index={int(want[k])} '
                           f'({int((got != want).sum())} of {want.size} interior directions differ)')
        # 2-d batches keep their shape
        g2 = np.asarray(ls.world2index(jnp.asarray(theta[:6].reshape(2, 3)), jnp.asarray(phi[:6].reshape(2, 3))))
        if g2.shape != (2, 3) or (g2.ravel() != hp.ang2pix(nside, theta[:6], phi[:6])).any():
            bad.append('2-d batch of directions')
    if bad:
        return violation('HEALPix lookup: ' + '; '.join(sorted(set(bad))[:3]), signature=f'c17-healpix:{nside}', kind='healpix')
    return ok(obligations=0, concrete_checks=6 * theta.size, nontrivial=True, sample=dict(case=f'healpix nside={nside}', directions=int(theta.size), note='concrete comparison with healpy (ring), interior points only'))


def _coverage(key):
    import healpy as hp
    from furax.landscapes import HealpixLandscape
    from furax.samplings import Sampling
    bad = []
    if key[0] == 'coverage-flat':
        shape = tuple(key[1])
        ls = _landscape(shape, 'shape')
        pix = shape[::-1]
        coords = [np.array(v, np.float64) for v in zip(*[c for c in itertools.product(*[range(n) for n in pix]) for _ in range(1 + sum(c) % 3)])]
        samp = Sampling(jnp.asarray(coords[0]), jnp.asarray(coords[1]), jnp.zeros(coords[0].size))
        cov = np.asarray(ls.get_coverage(samp))
        want = np.zeros(shape, np.int64)
        for a, b in zip(coords[0].astype(int), coords[1].astype(int)):
            want[b, a] += 1
        if cov.shape != shape or (cov != want).any() or cov.sum() != coords[0].size:
            bad.append(f'flat map {shape}: coverage {cov.tolist()} != histogram {want.tolist()}')
    else:
        nside = key[1]
        theta, phi = _interior_directions(nside)
        rng = np.random.default_rng(nside)
        sel = np.concatenate([rng.integers(0, theta.size, 5 * 12 * nside * nside), np.zeros(7, int), np.full(3, theta.size - 1)])
        ls = HealpixLandscape(nside, 'IQU')
        for shape in ((sel.size,), (2, sel.size // 2)):
            th, ph = theta[sel][: shape[-1] * (shape[0] if len(shape) > 1 else 1)].reshape(shape), phi[sel][: shape[-1] * (shape[0] if len(shape) > 1 else 1)].reshape(shape)
            cov = np.asarray(ls.get_coverage(Sampling(jnp.asarray(th), jnp.asarray(ph), jnp.zeros(shape))))
            want = np.bincount(hp.ang2pix(nside, th.ravel(), ph.ravel()), minlength=12 * nside * nside)
            if cov.shape != tuple(ls.shape) or not np.issubdtype(cov.dtype, np.integer):
                bad.append(f'coverage has {cov.dtype}{cov.shape}')
            elif (cov != want).any() or int(cov.sum()) != th.size:
                k = int(np.flatnonzero(cov != want)[0]) if (cov != want).any() else -1
                bad.append(f'nside={nside} samples{shape}: coverage[{k}]={int(cov[k])} but {int(want[k])} samples hit that pixel; sum={int(cov.sum())} for {th.size} samples')
    if bad:
        return violation('coverage map: ' + '; '.join(bad[:3]), signature=f'c17-coverage:{key[1]}', kind='coverage')
    return ok(obligations=0, concrete_checks=2, nontrivial=True, sample=dict(case=repr(key), note='concrete: coverage == histogram of hits, sums to the number of samples'))


def run_case(key, twin=False):
    if key and key[0] == 'twin':
        return run_case(key[1], twin=True)
    if key[0] == 'healpix':
        return _healpix(key)
    if key[0] in ('coverage', 'coverage-flat'):
        return _coverage(key)
    _, shape, how = key
    shape = tuple(shape)
    ls = _landscape(shape, how)
    pix = shape[::-1]  # first coordinate = fastest axis = last array axis
    if tuple(ls.pixel_shape) != pix or tuple(ls.shape) != shape:
        return violation(f'landscape built with {how}: shape={ls.shape} pixel_shape={ls.pixel_shape}, expected {shape} / {pix}', signature=f'c17-ctor:{how}', kind='ctor')
    nd = len(shape)
    N = int(np.prod([int(s) for s in shape], dtype=object))
    if len(ls) != N or ls.size != N:
        return violation(f'len/size {len(ls)}/{ls.size} != {N}', signature='c17-len', kind='ctor')
    ctx = E.Ctx()
    cst = [S() for _ in range(nd)]
    out, oshape, _ = E.run(ctx, lambda c: ls.pixel2index(*c), [('c', cst, 'sym')])
    if not np.issubdtype(oshape.dtype, np.integer) or (N - 1 > np.iinfo(oshape.dtype).max):
        return violation(f'index dtype {oshape.dtype} cannot hold the largest index of a map of {N} pixels', signature=f'c17-dtype:{N > 2**31}', kind='dtype')
    idx = out[()] if E.is_sym(out) else Poly.const(int(out))
    c = [Poly.var(f'c{k}') for k in range(nd)]
    i = [Poly.var(f'i{k}') for k in range(nd)]
    j = [Poly.var(f'j{k}') for k in range(nd)]
    for k in range(nd):
        ctx.int_atoms.add(f'i{k}')
        ctx.int_atoms.add(f'j{k}')
    strides = [int(np.prod([int(s) for s in pix[:k]], dtype=object)) for k in range(nd)]
    if twin:
        strides = [s + (1 if k == nd - 1 and nd > 1 else 0) for k, s in enumerate(strides)]
        if nd == 1:
            strides = [2]
    dec = Decider(timeout_ms=60000)
    half = z3.RealVal('1/2')
    big = 2 ** 30

    def lin(vs):
        acc = Poly()
        for v, s in zip(vs, strides):
            acc = acc + v * s
        return acc

    def bounded(enc):
        return z3.And(*[z3.And(enc.term(ck) >= -big, enc.term(ck) <= big) for ck in c])

    def inmap(enc, vs):
        return z3.And(*[z3.And(enc.term(v) >= 0, enc.term(v) < int(n)) for v, n in zip(vs, pix)])
    res = []
    huge = N > 2 ** 20 and nd > 1  # value clauses are decided on the small maps; huge maps only carry the dtype / no-overflow clauses
    # P1: strictly inside a pixel
    if not huge:
      res.append(('inside => row-major index', dec.decide(ctx, None, assumptions=[bounded, lambda enc: inmap(enc, i),
               lambda enc: z3.And(*[z3.And(z3.ToReal(enc.term(ik)) - half < enc.term(ck), enc.term(ck) < z3.ToReal(enc.term(ik)) + half) for ik, ck in zip(i, c)])],
               goal=lambda enc: enc.term(idx) != enc.term(lin(i)))))
    # P2: outside the half-pixel frame
    if not huge:
      res.append(('outside => -1', dec.decide(ctx, None, assumptions=[bounded,
               lambda enc: z3.Or(*[z3.Or(enc.term(ck) < -half, enc.term(ck) > int(n) - half) for ck, n in zip(c, pix)])],
               goal=lambda enc: enc.term(idx) != -1)))
    # P3: anywhere (ties included): the result is -1 or the index of a pixel whose centre is within 1/2 in every dimension
    def near(enc):
        return z3.And(*[z3.And(z3.ToReal(enc.term(ik)) - half <= enc.term(ck), enc.term(ck) <= z3.ToReal(enc.term(ik)) + half) for ik, ck in zip(i, c)])
    if not huge:
      res.append(('result is -1 or a nearest pixel', dec.decide(ctx, None, assumptions=[bounded],
               goal=lambda enc: z3.And(enc.term(idx) != -1, z3.Not(z3.Exists([enc.var(f'i{k}') for k in range(nd)],
                                                                                z3.And(inmap(enc, i), near(enc), enc.term(idx) == enc.term(lin(i)))))))))
    # P3b: inside the closed frame the result is never -1 unless a coordinate sits exactly on the outer edge
    if not huge:
      res.append(('interior never -1', dec.decide(ctx, None, assumptions=[bounded,
               lambda enc: z3.And(*[z3.And(enc.term(ck) > -half, enc.term(ck) < int(n) - half) for ck, n in zip(c, pix)])],
               goal=lambda enc: enc.term(idx) == -1)))
    # P4: bijection on integer in-map coordinates (injectivity and range; with N pixels this gives surjectivity)
    ctx2 = ctx
    out2, _, _ = E.run(ctx2, lambda d: ls.pixel2index(*d), [('d', cst, 'sym')])
    idx2 = out2[()] if E.is_sym(out2) else Poly.const(int(out2))
    d = [Poly.var(f'd{k}') for k in range(nd)]
    eqi = lambda enc: z3.And(*[enc.term(ck) == z3.ToReal(enc.term(ik)) for ck, ik in zip(c, i)] + [enc.term(dk) == z3.ToReal(enc.term(jk)) for dk, jk in zip(d, j)])  # noqa: E731
    if not huge:
      res.append(('integer coordinates: injective', dec.decide(ctx2, None, assumptions=[eqi, lambda enc: inmap(enc, i), lambda enc: inmap(enc, j)],
               goal=lambda enc: z3.And(enc.term(idx) == enc.term(idx2), z3.Or(*[enc.term(ik) != enc.term(jk) for ik, jk in zip(i, j)])))))
    if not huge:
      res.append(('integer coordinates: range 0..N-1', dec.decide(ctx2, None, assumptions=[eqi, lambda enc: inmap(enc, i)],
               goal=lambda enc: z3.Or(enc.term(idx) < 0, enc.term(idx) > N - 1))))
    # P5: machine integers.  Float->int conversions must fit for every bounded coordinate; sums/products must fit whenever every
    # coordinate is inside the frame (outside it the validity mask discards the value, so a wrapped intermediate is unobservable:
    # the mask itself only depends on the per-axis conversions).
    allb = [bounded, lambda enc: z3.And(*[z3.And(enc.term(dk) >= -big, enc.term(dk) <= big) for dk in d])]
    conv = [r_ for r_ in ctx.ranges if r_[3].startswith(('convert', 'narrow'))]
    arith = [r_ for r_ in ctx.ranges if not r_[3].startswith(('convert', 'narrow'))]
    if conv:
        res.append(('float->int conversions fit the index dtype', dec.decide(ctx, None, assumptions=allb,
                   goal=lambda enc: z3.Or(*[z3.Or(enc.term(v) < lo, enc.term(v) > hi) for v, lo, hi, _ in conv]))))
    if arith:
        frame = lambda enc: z3.And(*[z3.And(enc.term(v) >= -half, enc.term(v) <= int(n) - half) for vs in (c, d) for v, n in zip(vs, pix)])  # noqa: E731
        res.append(('index arithmetic fits the index dtype inside the frame', dec.decide(ctx, None, assumptions=allb + [frame],
                   goal=lambda enc: z3.Or(*[z3.Or(enc.term(v) < lo, enc.term(v) > hi) for v, lo, hi, _ in arith]))))
    # vacuity guard
    reach = dec.decide(ctx, None, assumptions=[bounded, lambda enc: inmap(enc, i)], goal=lambda enc: z3.BoolVal(True))
    if reach.status != 'sat':
        return inconclusive('assumptions unsatisfiable (vacuous)')
    dec.ok += 1
    common = dict(prims=sorted(ctx.prims), **dec.stats())
    nob = common.pop('obligations')
    bad = [(n, r) for n, r in res if r.status != 'unsat']
    if not bad:
        return ok(obligations=nob, nontrivial=N > 1, sample=dict(shape=list(shape), ctor=how, N=N, dtype=str(oshape.dtype), strides=strides, checks=[n for n, _ in res],
                                                               round_atoms=len(ctx.rounds), range_obligations=len(ctx.ranges), verdict='unsat'), **common)
    if any(r.status == 'unknown' for _, r in bad):
        return inconclusive('solver unknown: ' + bad[0][0] + ' ' + bad[0][1].reason, obligations=nob, **common)
    n, r = bad[0]
    return violation(f'pixel2index on a map of shape {shape}: "{n}" fails', model=r.model, signature=f'c17-{n}:{shape}', kind=n, twin=twin, obligations=nob, **common)


def replay(key, model, info):
    from fractions import Fraction
    twin = False
    if key and key[0] == 'twin':
        key, twin = key[1], True
    key = _tuplify(key)
    if key[0] in ('healpix', 'coverage', 'coverage-flat'):
        r = run_case(key)
        return r['status'] == 'violation', r.get('what', 'ok')
    _, shape, how = key
    kind = info.get('kind')
    if kind in ('ctor', 'dtype'):
        r = run_case(key)
        return r['status'] == 'violation', r.get('what', 'ok')
    ls = _landscape(shape, how)
    pix = tuple(shape)[::-1]
    nd = len(pix)
    strides = [int(np.prod([int(s) for s in pix[:k]], dtype=object)) for k in range(nd)]
    if twin:
        strides = [s + (1 if k == nd - 1 and nd > 1 else 0) for k, s in enumerate(strides)]
        if nd == 1:
            strides = [2]
    getf = lambda n: float(Fraction(model[n])) if model.get(n) is not None else 0.0  # noqa: E731
    c = [getf(f'c{k}') for k in range(nd)]
    got = int(ls.pixel2index(*[jnp.asarray(v, dtype=jnp.float64) for v in c]))
    # independent expectation
    def expect(c):
        outside = any(v < -0.5 or v > n - 0.5 for v, n in zip(c, pix))
        if outside:
            return {-1}
        cands = [set()]
        opts = []
        for v, n in zip(c, pix):
            lo, hi = int(np.floor(v + 0.5)), int(np.ceil(v - 0.5))
            opts.append({lo, hi})
        res = set()
        for combo in itertools.product(*opts):
            res.add(sum(i * s for i, s in zip(combo, strides)) if all(0 <= i < n for i, n in zip(combo, pix)) else -1)
        return res
    if kind and kind.startswith('integer coordinates'):
        i = [int(Fraction(model.get(f'i{k}', 0))) for k in range(nd)]
        j = [int(Fraction(model.get(f'j{k}', 0))) for k in range(nd)]
        gi = int(ls.pixel2index(*[jnp.asarray(float(v)) for v in i]))
        gj = int(ls.pixel2index(*[jnp.asarray(float(v)) for v in j]))
        N = int(np.prod(pix))
        bad = (gi == gj and i != j) or not (0 <= gi < N)
        return bad, f'pixel2index{tuple(i)}={gi}, pixel2index{tuple(j)}={gj}, N={N}'
    exp = expect(c)
    if got in exp and kind and ('fits the index dtype' in kind or 'conversions fit' in kind):
        # the machine-integer obligations range over BOTH traced evaluations (coordinates c and d): the model may overflow in the second
        dd = [getf(f'd{k}') for k in range(nd)]
        got2 = int(ls.pixel2index(*[jnp.asarray(v, dtype=jnp.float64) for v in dd]))
        exp2 = expect(dd)
        if got2 not in exp2:
            return True, f'pixel2index{tuple(dd)} = {got2}, expected one of {sorted(exp2)} (strides {strides})'
    return (got not in exp), f'pixel2index{tuple(c)} = {got}, expected one of {sorted(exp)} (strides {strides})'
