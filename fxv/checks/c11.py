"""C11 - (broadcast) diagonal operators multiply along the requested axes with NumPy broadcasting."""
from __future__ import annotations

import itertools
import random

import jax
import jax.numpy as jnp
import numpy as np

from .. import interp as E
from ..common import Decider, S, describe_struct, f64, model_tree, pairs, structs_equal, trees_close
from ..harness import inconclusive, ok, skipped, violation
from ..poly import Poly

ID = 'C11'
LEVEL = 'other'
TECHNIQUE = 'jaxpr-level symbolic execution of BroadcastDiagonalOperator/DiagonalOperator.mv + z3 against explicit index arithmetic; legality compared with an independent predicate; as_matrix() and the inverse of the strict operator against mv'
EXPLANATION = ('For every (leaf shapes, value shape, axis specification, strict/broadcast) of a bounded family the operator is '
               'constructed; legality (must raise / must construct) is compared with an independent predicate, and for legal '
               'specifications mv is traced with symbolic values and symbolic input and compared by z3 with '
               'out[o] = v[o restricted to destination axes] * x[o restricted to leaf axes] written as explicit index arithmetic.')
FUNCTIONS = ['BroadcastDiagonalOperator.__init__/_normalize_axes/_reshape_diagonal/_reshape_input_leaf/_reshape_leaves/mv',
             'DiagonalOperator._check_leaf_shapes/as_matrix']
BOUNDS = {'quick': 'leaf shapes (2,),(3,),(2,3),(3,2),(1,3),(2,1),(2,3,2) and 3 pytrees with leaves of different rank; value shapes '
                   '(2,),(3,),(1,),(2,3),(3,2),(2,1); scalar axes -4..3, all axis tuples over -3..2; strict and broadcast; seeded 700; rank-3 values (2,3,2),(2,2,3) under all 12 sign-consistent axis permutations + 3 mixed on 5 leaf shapes',
          'thorough': 'all 2184 single-leaf configurations + 4 more leaf shapes x 8 value shapes (rank <= 3) + pytrees'}
STUBS = []
ASSUMPTIONS = ['real arithmetic']
RULE = 'case = (leaf shapes, value shape, axes, strict); non-trivial = legal configuration (symbolic comparison performed); distinct keys'
BUDGET = {'quick': 400, 'thorough': 2400}
EXHAUSTIVE = {'thorough': True}

SHAPES = [(2,), (3,), (2, 3), (3, 2), (1, 3), (2, 1), (2, 3, 2)]
VSHAPES = [(2,), (3,), (1,), (2, 3), (3, 2), (2, 1)]
TREES = [((3,), (2, 3)), ((2,), (3, 2), (2, 3, 2)), ((2, 3), (3,))]


def cases(tier, seed):
    rnd = random.Random(f'c11-{seed}')
    out = []
    for xs in SHAPES:
        for vs in VSHAPES:
            specs = list(range(-4, 4)) + list(itertools.permutations(range(-3, 3), len(vs)))
            for ax in specs:
                for strict in (False, True):
                    out.append(('diag', (xs,), vs, ax, strict))
    if tier == 'quick':
        rnd.shuffle(out)
        out = out[:700]
    else:
        for xs in [(2, 2, 3), (3, 1, 2), (1,), (2, 2)]:
            for vs in [(2,), (3,), (1,), (2, 2), (2, 3), (1, 3), (3, 1), (2, 1, 3)]:
                specs = list(range(-4, 4)) + list(itertools.permutations(range(-3, 3), len(vs)))
                for ax in specs:
                    for strict in (False, True):
                        out.append(('diag', (xs,), vs, ax, strict))
    # rank-3 values under every permutation of the destination axes (a cyclic permutation is not its own inverse: argsort vs rank)
    for vs in [(2, 3, 2), (2, 2, 3)]:
        for xs in [(2, 3, 2), (2, 2, 3), (3, 2, 2), (2,), (3, 2)]:
            for ax in list(itertools.permutations(range(3))) + list(itertools.permutations(range(-3, 0))) + [(0, -1, 1), (-2, 0, 2), (3, 1, 0)]:
                for strict in (False, True):
                    out.append(('diag', (xs,), vs, ax, strict))
    for tr in TREES:
        for vs in [(2,), (3,), (2, 3), (1,)]:
            for ax in [0, -1, -2, 1] + list(itertools.permutations(range(-2, 2), len(vs))):
                for strict in (False, True):
                    out.append(('diag', tr, vs, ax, strict))
    # the same explicit axes given as a list instead of a tuple (any sequence of axes is accepted by the constructor)
    for xs, vs, ax in [((2, 3), (3, 2), (1, 0)), ((2, 3), (2, 3), (-2, -1)), ((2, 3, 2), (2, 2), (2, 0)), ((3, 2), (2, 3), (1, 0)), ((2, 3), (3,), (-1,)), ((2, 2, 3), (3, 2), (-1, 0))]:
        for strict in (False, True):
            out.append(('diagl', (xs,), vs, ax, strict))
    out.append(('illegal',))
    return out


def twins():
    return [('diag', ((2, 3),), (3,), -1, True), ('diag', ((2,),), (2, 3), 0, False)]


def _norm_axes(vs, ax):
    if isinstance(ax, int):
        return tuple(range(ax, ax + len(vs))) if ax >= 0 else tuple(range(ax - len(vs) + 1, ax + 1))
    return tuple(ax)


def oracle_plan(vs, ax, xs, strict):
    """Independent specification: returns (L, pos, out shape) or raises ValueError."""
    r = len(xs)
    axes = _norm_axes(vs, ax)
    if len(axes) != len(vs):
        raise ValueError('axes/ndim')
    norm = tuple(a if a >= 0 else r + a for a in axes)
    if len(set(norm)) != len(norm):
        raise ValueError('dup')
    L = max(0, -min(norm))
    R = max(0, max(norm) - r + 1)
    rank = L + r + R
    if rank < len(vs):
        raise ValueError('rank')
    pos = [a + L for a in norm]
    vshape = [1] * rank
    for k, p in enumerate(pos):
        vshape[p] = vs[k]
    xshape = [1] * L + list(xs) + [1] * R
    oshape = []
    for a, b in zip(vshape, xshape):
        if a != b and a != 1 and b != 1:
            raise ValueError('broadcast')
        oshape.append(max(a, b))
    if strict and tuple(oshape) != tuple(xs):
        raise ValueError('strict')
    return L, pos, tuple(oshape)


def oracle_apply(v, x, vs, ax, xs, strict, scale=1):
    L, pos, oshape = oracle_plan(vs, ax, xs, strict)
    out = np.empty(oshape, dtype=object)
    for o in np.ndindex(*oshape):
        vi = tuple(o[p] if vs[k] != 1 else 0 for k, p in enumerate(pos))
        xi = tuple(o[L + d] if xs[d] != 1 else 0 for d in range(len(xs)))
        out[o] = v[vi] * x[xi] * scale
    return E.fix(out)


def _ins(shapes):
    if len(shapes) == 1:
        return S(*shapes[0])
    return {f'l{i}': S(*s) for i, s in enumerate(shapes)}


def _cls(strict):
    from furax._base.diagonal import BroadcastDiagonalOperator, DiagonalOperator
    return DiagonalOperator if strict else BroadcastDiagonalOperator


def run_case(key, twin=False):
    if key and key[0] == 'twin':
        return run_case(key[1], twin=True)
    if key[0] == 'illegal':
        return _illegal()
    _, shapes, vs, ax, strict = key
    ax_arg = list(ax) if key[0] == 'diagl' else ax
    ins = _ins(shapes)
    legal = True
    why = ''
    try:
        oshapes = [oracle_plan(vs, ax, xs, strict)[2] for xs in shapes]
    except ValueError as ex:
        legal, why = False, str(ex)
    cls = _cls(strict)
    try:
        op0 = cls(jnp.ones(vs), axis_destination=ax_arg, in_structure=ins)
        built, err = True, None
    except Exception as ex:  # noqa: BLE001
        built, err = False, ex
    if built != legal:
        if legal:
            return violation(f'{cls.__name__}(values{vs}, axis_destination={ax}) on {shapes} raises {type(err).__name__}: {str(err)[:100]} '
                             f'but the specification is legal', signature=f'c11-legal-rejected:{key}', kind='legality')
        return violation(f'{cls.__name__}(values{vs}, axis_destination={ax}) on {shapes} is accepted but must be rejected ({why})',
                         signature=f'c11-illegal-accepted:{key}', kind='legality')
    if not legal:
        return ok(obligations=0, nontrivial=False, sample=None, legality_checks=1)
    outs = jax.tree.map(lambda l, o: S(*o), ins, jax.tree.unflatten(jax.tree.structure(ins), oshapes))
    if not structs_equal(op0.out_structure(), outs):
        return violation(f'out_structure {describe_struct(op0.out_structure())} != {describe_struct(outs)} for {key}', signature=f'c11-struct:{key}', kind='struct')
    ctx = E.Ctx()
    dec = Decider()
    v = E.sym_array('v0', vs)
    x = E.symbols('x', ins)
    got, gs, _ = E.run(ctx, lambda v, x: cls(v, axis_destination=ax_arg, in_structure=ins).mv(x), [('v', S(*vs), 'sym'), ('x', ins, 'sym')])
    if not structs_equal(gs, outs):
        return violation(f'mv output {describe_struct(gs)} != {describe_struct(outs)} for {key}', signature=f'c11-struct:{key}', kind='struct')
    xl = jax.tree.leaves(x, is_leaf=E.is_sym)
    want = jax.tree.unflatten(jax.tree.structure(ins), [oracle_apply(v, xi, vs, ax, xs, strict, 2 if twin else 1) for xi, xs in zip(xl, shapes)])
    res = [dec.decide(ctx, pairs(got, want, ctx))]
    if strict and res[0].status == 'unsat' and sum(int(np.prod(s_)) for s_ in shapes) <= 24:
        # the strict operator has its own as_matrix() and inverse: both must place the values on the same axes as mv
        def flat(t):
            return jnp.concatenate([l.ravel() for l in jax.tree.leaves(t)])
        try:
            dm, _, _ = E.run(ctx, lambda v, x: cls(v, axis_destination=ax_arg, in_structure=ins).as_matrix() @ flat(x), [('v', S(*vs), 'sym'), ('x', ins, 'sym')])
            r2 = dec.decide(ctx, pairs(dm, got, ctx))
        except E.Unsupported:
            raise
        except Exception as ex:  # noqa: BLE001
            return violation(f'as_matrix() of {cls.__name__}(values{vs}, axis_destination={ax}) on {shapes} raises {type(ex).__name__}: {str(ex)[:100]}',
                             signature=f'c11-as-matrix-raises:{key}', kind='as_matrix')
        if r2.status == 'sat':
            return violation(f'as_matrix() @ x differs from mv(x) for {key}', model=r2.model, signature=f'c11-as-matrix:{key}', kind='as_matrix', twin=twin, **dec.stats())
        if r2.status == 'unknown':
            res = [r2]
        else:
            # D.I(D x) = x wherever every value is non-zero
            iv, _, _ = E.run(ctx, lambda v, x: (lambda o: o.I.mv(o.mv(x)))(cls(v, axis_destination=ax_arg, in_structure=ins)), [('v', S(*vs), 'sym'), ('x', ins, 'sym')])
            nz = [lambda enc, a=a: enc.term(a) != 0 for a in E.flat_elems(v)]
            r3 = dec.decide(ctx, pairs(iv, x, ctx), assumptions=nz)
            if r3.status == 'sat':
                return violation(f'D.I(D x) != x for {key} (all values non-zero)', model=r3.model, signature=f'c11-inverse:{key}', kind='inverse', twin=twin, **dec.stats())
            if r3.status == 'unknown':
                res = [r3]
    common = dict(prims=sorted(ctx.prims), **dec.stats())
    nob = common.pop('obligations')
    if res[0].status == 'unsat':
        return ok(obligations=nob, nontrivial=True, sample=dict(case=repr(key), out=[list(o) for o in oshapes], verdict='unsat'), **common)
    if res[0].status == 'unknown':
        return inconclusive('solver unknown', obligations=nob, **common)
    return violation(f'mv differs from v[dest axes]*x[leaf axes] for {key}', model=res[0].model, signature=f'c11-mv:{key}', kind='mv',
                     twin=twin, obligations=nob, **common)


def _illegal():
    from furax._base.diagonal import BroadcastDiagonalOperator, DiagonalOperator
    bad = []
    n = 0
    for cls in (BroadcastDiagonalOperator, DiagonalOperator):
        for val, kw, label in [
            (jnp.array(2.0), {}, 'scalar values'),
            ({'a': jnp.ones(3)}, {}, 'pytree values'),
            ([jnp.ones(3), jnp.ones(3)], {}, 'list values'),
            (jnp.ones((3, 3)), dict(axis_destination=(0, 0)), 'duplicate axes'),
            (jnp.ones((3, 3)), dict(axis_destination=(-1, 1)), 'duplicate axes after normalisation'),
            (jnp.ones(4), {}, 'incompatible length'),
        ]:
            n += 1
            st = S(2, 3) if 'axes' not in label and 'duplicate' not in label else S(3, 3)
            if label == 'duplicate axes after normalisation':
                st = S(3, 2)
                val = jnp.ones((2, 2))
            try:
                cls(val, in_structure=st, **kw)
                bad.append(f'{cls.__name__} accepted {label}')
            except Exception:  # noqa: BLE001  (the statement only says "raise at construction")
                pass
    if bad:
        return violation('; '.join(bad), signature='c11-illegal:' + ';'.join(bad)[:150], kind='illegal')
    return ok(obligations=n, nontrivial=True, sample=dict(case='scalar / pytree / duplicate / incompatible values rejected', n=n))


def replay(key, model, info):
    twin = False
    if key and key[0] == 'twin':
        key, twin = key[1], True
    from .c01 import _tuplify
    key = _tuplify(key)
    kind = info.get('kind')
    if key[0] == 'illegal' or kind in ('legality', 'struct'):
        r = run_case(key)
        return r['status'] == 'violation', r.get('what', 'ok')
    _, shapes, vs, ax, strict = key
    ax_arg = list(ax) if key[0] == 'diagl' else ax
    ins = _ins(shapes)
    v = np.asarray(model_tree(model, 'v', S(*vs)))
    x = model_tree(model, 'x', ins)
    op = _cls(strict)(jnp.asarray(v), axis_destination=ax_arg, in_structure=ins)
    got = op.mv(x)
    if kind == 'as_matrix':
        flat = lambda t: np.concatenate([np.asarray(l).ravel() for l in jax.tree.leaves(t)])  # noqa: E731
        try:
            a = np.asarray(op.as_matrix()) @ flat(x)
        except Exception as ex:  # noqa: BLE001
            return True, f'as_matrix() raises {type(ex).__name__}: {str(ex)[:100]}'
        return (not np.allclose(a, flat(got), rtol=1e-9, atol=1e-12)), f'{key}: as_matrix() @ x = {a} but mv(x) = {flat(got)}'
    if kind == 'inverse':
        close, msg = trees_close(op.I.mv(got), x)
        return (not close), f'{key}: D.I(D x) vs x: {msg}'
    want = []
    for xi, xs in zip(jax.tree.leaves(x), shapes):
        L, pos, oshape = oracle_plan(vs, ax, xs, strict)
        out = np.empty(oshape)
        xi = np.asarray(xi)
        for o in np.ndindex(*oshape):
            vi = tuple(o[p] if vs[k] != 1 else 0 for k, p in enumerate(pos))
            xj = tuple(o[L + d] if xs[d] != 1 else 0 for d in range(len(xs)))
            out[o] = v[vi] * xi[xj] * (2 if twin else 1)
        want.append(out)
    close, msg = trees_close(got, jax.tree.unflatten(jax.tree.structure(ins), want))
    return (not close), f'{key}: {msg}'
