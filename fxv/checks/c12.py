"""C12 - indexing/packing select, their transposes scatter-add, and the P@P.T / P.T@P rules are sound."""
from __future__ import annotations

import itertools
import random

import jax
import jax.numpy as jnp
import numpy as np

from .. import interp as E
from ..common import Decider, S, f64, model_tree, pairs, structs_equal, trees_close, describe_struct
from ..harness import inconclusive, ok, skipped, violation
from ..poly import Poly

ID = 'C12'
LEVEL = 'other'
TECHNIQUE = 'jaxpr-level symbolic execution (gather/scatter-add probed from the real primitives) + z3 against NumPy indexing / np.add.at on symbol arrays'
EXPLANATION = ('For every index expression of a bounded family (exhaustive small integer vectors incl. negative and repeated '
               'entries, 2-d index arrays, masks, ints, slices, ellipsis, combinations) IndexOperator is built with and without '
               'explicit out_structure; mv, T.mv, (P@P.T).reduce() and (P.T@P).reduce() are traced with symbolic x / y and '
               'compared by z3 with NumPy indexing, np.add.at, and the unreduced products. Index arrays are program structure '
               '(furax evaluates jnp.unique on them) and are enumerated; the vector entries are quantified by the solver.')
FUNCTIONS = ['IndexOperator.__init__/mv/reduce/indexed_axes/unique_indices', 'IndexTransposeRule', 'TransposeIndexRule',
             'TransposeOperator.mv (linear_transpose of gather)', 'PackOperator.mv', 'PackUnpackRule', 'StokesPyTree.__getitem__']
BOUNDS = {'quick': 'all int vectors of length<=2 over [-n,n), n<=3, and a seeded third of length 3; leaf shapes (n,),(n,2),(2,n); '
                   'all masks of length<=3; 2x2 index matrices (seeded 40); 24 combined expressions on (2,3,2); pytrees; Stokes packing',
          'thorough': 'all int vectors of length<=3 over [-n,n), n<=4; all masks of length<=4; all 2x2 index matrices over [-2,2); combined expressions'}
STUBS = []
ASSUMPTIONS = ['indices in bounds (property precondition)', 'real arithmetic']
RULE = 'case = (leaf shape(s), index expression); non-trivial = at least one array/mask index or a rewritten product; distinct keys'
BUDGET = {'quick': 400, 'thorough': 2400}
EXHAUSTIVE = {'thorough': True}


def _vecs(n, maxlen):
    for L in range(1, maxlen + 1):
        yield from itertools.product(range(-n, n), repeat=L)


def cases(tier, seed):
    rnd = random.Random(f'c12-{seed}')
    out = []
    for n in ((1, 2, 3) if tier == 'quick' else (1, 2, 3, 4)):
        vs = list(_vecs(n, 3))
        if tier == 'quick':
            short = [v for v in vs if len(v) <= 2]
            long = [v for v in vs if len(v) == 3]
            rnd.shuffle(long)
            vs = short + long[: max(8, len(long) // 3)]
        for v in vs:
            out.append(('idx', ((n,),), (('a', v),)))
            if tier == 'thorough' or rnd.random() < 0.5:
                out.append(('idx', ((n, 2),), (('a', v),)))
            if tier == 'thorough' or rnd.random() < 0.5:
                out.append(('idx', ((2, n),), ('E', ('a', v))))
            if rnd.random() < (1.0 if tier == 'thorough' else 0.25):
                out.append(('idx', ((2, n),), (('s', None, None, None), ('a', v))))
    mats = list(itertools.product(range(-2, 2), repeat=4))
    if tier == 'quick':
        rnd.shuffle(mats)
        mats = mats[:40]
    for m in mats:
        mm = ((m[0], m[1]), (m[2], m[3]))
        out.append(('idx', ((2,),), (('a', mm),)))
        out.append(('idx', ((3, 2),), ('E', ('a', mm))))
    for shape, mm in [((4,), ((0, 1), (2, 3))), ((3,), ((0, 1), (2, 2))), ((3,), ((0,), (1,), (2,))), ((4,), ((3, -1, 0), (1, 1, 2))), ((2, 4), ((0, 1), (2, 3)))]:
        out.append(('idx', (shape,), (('a', mm),) if len(shape) == 1 else ('E', ('a', mm))))
    # index arrays of rank >= 2 whose LEADING dimension is 1 (a one-detector pointing array), with and without repeated entries
    for shape, mm in [((3,), ((0, 2, 2),)), ((3,), ((0, 1, 2),)), ((3,), ((1, -2, 0),)), ((4,), (((0, 1), (1, 3)),)), ((3,), ((2,),))]:
        out.append(('idx', (shape,), (('a', mm),)))
        out.append(('idx', ((2,) + shape,), ('E', ('a', mm))))
    for L in range(1, 4 if tier == 'quick' else 5):
        for mk in itertools.product((False, True), repeat=L):
            out.append(('idx', ((L,),), (('m', mk),)))
            out.append(('idx', ((2, L),), ('E', ('m', mk))))
            out.append(('pack', 'arr', (L,), mk))
            out.append(('pack', 'IQU', (L,), mk))
            if L <= 2:
                out.append(('pack', 'QU', (L,), mk))
                out.append(('pack', 'IQUV', (L,), mk))
            if L >= 2 and any(mk) and not all(mk):
                # leaves with MORE axes than the mask: the mask selects along the leading axes (y = x[mask])
                out.append(('pack', 'arr', (L, 2), mk))
                out.append(('pack', 'arr', (L, L), mk))
                out.append(('pack', 'IQU', (L, L), mk))
    for m2 in [((True, False), (False, True)), ((True, True), (False, True)), ((False, False), (True, False))]:
        out.append(('pack', 'arr', (2, 2), m2))
        out.append(('pack', 'arr', (2, 2, 2), m2))
        out.append(('pack', 'IQU', (2, 2, 3), m2))
    sl = ('s', None, None, None)
    A = ('a', (1, 0, 1))
    B = ('a', (0, -1, 0))
    combos = [
        (0,), (-1,), (1, 2), (1, 'E'), ('E', 0), (sl,), ('E',), (sl, sl, sl), (('s', 0, 1, None),), (('s', None, None, 2), 'E'),
        (sl, ('s', 1, 3, None)), (sl, A), ('E', ('a', (1, 1))), (A, 'E'), (1, 'E', ('a', ((0, 1), (1, 1)))),
        (A, sl, 0), (A, B), (A, sl, B), (0, A), (sl, ('a', (2, -3, 0, 0)), 1), (('m', (True, False)),), ('E', ('m', (True, True))),
        (sl, ('m', (False, True, True))), (('s', None, None, -1),), (sl, ('s', 2, 0, -1), sl), (('a', (-2, 1)), ('s', 0, 2, None), 'E'),
        (sl, 'E', A), (sl, 'E', ('a', (1, 1))), ('E', A, sl), ('E', ('a', (0, 0, 1)), sl), (sl, A, 'E'), (sl, sl, 'E', ('a', (1, 1, 0))), (0, 'E', ('a', (1, 1))),
        ('E', ('a', (2, 2, 0)), sl), (sl, 'E', ('a', ((1, 1), (0, 1)))),
        (('m', (True, False)), ('a', (1, 1))), (('m', (True, True)), ('a', (1, 1))), (('m', (False, True)), ('a', (2, 0, 2)), 0),
        (sl, ('m', (True, False, True)), ('a', (1, 1))), (('a', (1, 1)), ('m', (True, False, False))), (('m', (True, True)), sl, ('a', (0, 1))),
        (('m', (True, False)), ('a', ((1,), (1,)))),
    ]
    for c in combos:
        out.append(('idx', ((2, 3, 2),), c))
    for c in [('E', ('a', (1, 1, 0))), ('E', ('a', (0, 1))), ('E', ('m', (True, False))), ('E', 0), ('E',), ('E', ('s', 0, 1, None))]:
        out.append(('idx', ((2,), (3, 2)), c))
    # leaves whose INDEXED axis has different lengths: the multiplicity diagonal of P.T @ P cannot be shared between the leaves
    for shapes in [((3,), (2, 4)), ((2, 4), (3,)), ((4,), (3,), (2, 5))]:
        out.append(('idx', shapes, ('E', ('a', (1, 1, 0)))))
        out.append(('idx', shapes, ('E', ('a', (2, -1, 2, 0)))))
    for v in [(0, 1), (1, 1, 0), (-1,), (1, -1, 0)]:
        out.append(('idx', 'IQU2', (('a', v),)))
    seen, res = set(), []
    for k in out:
        if k not in seen:
            seen.add(k)
            res.append(k)
    return res


def _single_array_axis(spec):
    """Exactly one axis is indexed, by a 1-d integer array; every other element is a full slice or the ellipsis."""
    arrays = [t for t in spec if isinstance(t, tuple) and t[0] == 'a']
    rest = [t for t in spec if not (isinstance(t, tuple) and t[0] == 'a')]
    return (len(arrays) == 1 and all(isinstance(v, int) for v in arrays[0][1])
            and all(t == 'E' or t == ('s', None, None, None) for t in rest))


def twins():
    return [('idx', ((3,),), (('a', (0, 2, 2)),)), ('pack', 'arr', (3,), (True, False, True))]


# ---- index construction -----------------------------------------------------------------------

def _np_index(spec):
    out = []
    for t in spec:
        if t == 'E':
            out.append(Ellipsis)
        elif isinstance(t, int):
            out.append(t)
        elif t[0] == 's':
            out.append(slice(t[1], t[2], t[3]))
        elif t[0] == 'a':
            out.append(np.array(t[1], dtype=np.int64))
        elif t[0] == 'm':
            out.append(np.array(t[1], dtype=bool))
    return tuple(out)


def _jx_index(spec):
    return tuple(jnp.asarray(t) if isinstance(t, np.ndarray) else t for t in _np_index(spec))


def _in_struct(shapes):
    if shapes == 'IQU2':
        from furax.landscapes import StokesIQUPyTree
        return StokesIQUPyTree.structure_for((2,), f64)
    if len(shapes) == 1:
        return S(*shapes[0])
    return {'a': S(*shapes[0]), 'b': [S(*shapes[1])]}


def _has_mask(spec):
    return any(isinstance(t, tuple) and t[0] == 'm' for t in spec)


def _has_array(spec):
    return any(isinstance(t, tuple) and t[0] in 'am' for t in spec)


def _tuplify(o):
    if isinstance(o, list):
        return tuple(_tuplify(x) for x in o)
    if isinstance(o, tuple):
        return tuple(_tuplify(x) for x in o)
    return o


def _oracle_select(x, npi):
    return jax.tree.map(lambda l: E.fix(l[npi]), x, is_leaf=E.is_sym)


def _oracle_scatter(y, npi, in_struct):
    def one(yl, st):
        z = E.obj_array(st.shape, lambda _: Poly())
        view = np.empty(st.shape, dtype=np.int64)
        view.reshape(-1)[:] = np.arange(view.size)
        src = view[npi]
        zf = z.reshape(-1)
        yl = np.broadcast_to(yl, np.shape(src)) if np.shape(src) != np.shape(yl) else yl
        for pos, val in zip(np.asarray(src).reshape(-1), np.asarray(yl, dtype=object).reshape(-1)):
            zf[pos] = zf[pos] + val
        return z
    return jax.tree.map(one, y, in_struct, is_leaf=E.is_sym)


def run_case(key, twin=False):
    if key and key[0] == 'twin':
        return run_case(key[1], twin=True)
    if key[0] == 'pack':
        return _pack_case(key, twin)
    from furax._base.core import IdentityOperator
    from furax._base.diagonal import DiagonalOperator
    from furax._base.indices import IndexOperator
    _, shapes, spec = key
    npi, jxi = _np_index(spec), _jx_index(spec)
    ins = _in_struct(shapes)
    try:
        outs = jax.tree.map(lambda l: S(*np.empty(l.shape)[npi].shape), ins)
    except IndexError as ex:
        return skipped(f'out of bounds / illegal for NumPy: {ex}')
    idx_arg = jxi if len(jxi) != 1 else jxi[0]
    variants = [('explicit', dict(out_structure=outs))]
    if not _has_mask(spec):
        variants.append(('inferred', {}))
    dec = Decider()
    ctx = E.Ctx()
    x, y = E.symbols('x', ins), E.symbols('y', outs)
    results, notes = [], []
    for vname, kw in variants:
        try:
            op0 = IndexOperator(idx_arg, in_structure=ins, **kw)
        except Exception as ex:  # noqa: BLE001
            return violation(f'IndexOperator({spec}) [{vname} out_structure] raises {type(ex).__name__}: {str(ex)[:120]}',
                             signature=f'c12-ctor:{vname}:{type(ex).__name__}', kind='ctor', variant=vname)
        if not structs_equal(op0.out_structure(), outs):
            return violation(f'out_structure {describe_struct(op0.out_structure())} != NumPy {describe_struct(outs)} for {key}',
                             signature=f'c12-struct:{key}', kind='struct', variant=vname)
        mk = lambda: IndexOperator(idx_arg, in_structure=ins, **kw)  # noqa: E731
        got, gs, _ = E.run(ctx, lambda x: mk().mv(x), [('x', ins, 'sym')])
        if not structs_equal(gs, outs):
            return violation(f'mv output {describe_struct(gs)} != NumPy {describe_struct(outs)} for {key}', signature=f'c12-struct:{key}', kind='struct', variant=vname)
        want = _oracle_select(x, npi)
        if twin:
            want = jax.tree.map(lambda l: l * 2, want, is_leaf=E.is_sym)
        results.append(('mv', dec.decide(ctx, pairs(got, want, ctx))))
        gt, ts, _ = E.run(ctx, lambda y: mk().T.mv(y), [('y', outs, 'sym')])
        if not structs_equal(ts, ins):
            return violation(f'T.mv output {describe_struct(ts)} != input structure for {key}', signature=f'c12-struct:{key}', kind='struct', variant=vname)
        results.append(('T', dec.decide(ctx, pairs(gt, _oracle_scatter(y, npi, ins), ctx))))
        if vname != variants[0][0]:
            continue
        # rules (same operator object on both sides, as a user writes P @ P.T)
        def ppt(reduce):
            def f(y):
                p = mk()
                a = p @ p.T
                return (a.reduce() if reduce else a).mv(y)
            return f

        def ptp(reduce):
            def f(x):
                p = mk()
                a = p.T @ p
                return (a.reduce() if reduce else a).mv(x)
            return f
        p0 = op0
        try:
            r1 = (p0 @ p0.T).reduce()
            r2 = (p0.T @ p0).reduce()
        except Exception as ex:  # noqa: BLE001
            return violation(f'reduce() of P@P.T / P.T@P raises {type(ex).__name__}: {str(ex)[:120]} for {key}',
                             signature=f'c12-reduce-raises:{key}', kind='reduce-raises')
        notes.append((type(r1).__name__, type(r2).__name__))
        if _single_array_axis(spec) and len({l.shape for l in jax.tree.leaves(ins)}) == 1 and not getattr(op0, 'unique_indices', False):
            from furax._base.core import CompositionOperator
            if isinstance(r2, CompositionOperator):
                return violation(f'P.T @ P is not simplified although a single axis is indexed (by an integer array) for {key}: reduce() returns a composition',
                                 signature=f'c12-ptp-not-simplified:{key}', kind='ptp-not-simplified')
        a1, _, _ = E.run(ctx, ppt(False), [('y', outs, 'sym')])
        b1, _, _ = E.run(ctx, ppt(True), [('y', outs, 'sym')])
        results.append(('PPT', dec.decide(ctx, pairs(a1, b1, ctx))))
        a2, _, _ = E.run(ctx, ptp(False), [('x', ins, 'sym')])
        b2, _, _ = E.run(ctx, ptp(True), [('x', ins, 'sym')])
        results.append(('PTP', dec.decide(ctx, pairs(a2, b2, ctx))))
        # multiplicity oracle for P.T @ P
        cnt = _oracle_scatter(_oracle_select(x, npi), npi, ins)
        results.append(('PTP-mult', dec.decide(ctx, pairs(b2, cnt, ctx))))
        if isinstance(r1, IdentityOperator):
            results.append(('PPT-id', dec.decide(ctx, pairs(a1, y, ctx))))
    common = dict(prims=sorted(ctx.prims), **dec.stats())
    nob = common.pop('obligations')
    bad = [(n, r) for n, r in results if r.status != 'unsat']
    if not bad:
        return ok(obligations=nob, nontrivial=_has_array(spec),
                  sample=dict(case=repr(key), reduced_types=notes, verdict='unsat', smt_digest=results[0][1].digest), **common)
    if any(r.status == 'unknown' for _, r in bad):
        return inconclusive('solver unknown', obligations=nob, **common)
    name, r = bad[0]
    return violation(f'{name} identity fails for IndexOperator{spec} on {shapes} (reduced types {notes})', model=r.model,
                     signature=f'c12-{name}:{shapes}:{spec}', kind=name, twin=twin, obligations=nob, **common)


def _pack_case(key, twin):
    from furax._base.linear import PackOperator
    _, kind, shape, mk = key
    mask_np = np.array(mk, dtype=bool)
    mask = jnp.asarray(mask_np)
    if kind == 'arr':
        ins = S(*shape)
    else:
        from furax.landscapes import StokesPyTree
        ins = StokesPyTree.class_for(kind).structure_for(shape, f64)
    n_out = int(mask_np.sum())
    outs = jax.tree.map(lambda l: S(*np.empty(l.shape)[mask_np].shape), ins)
    ctx = E.Ctx()
    dec = Decider()
    x, y = E.symbols('x', ins), E.symbols('y', outs)
    try:
        op0 = PackOperator(mask, ins)
        if not structs_equal(op0.out_structure(), outs):
            return violation(f'PackOperator out_structure {describe_struct(op0.out_structure())} for {key}', signature=f'c12-pack-struct:{key}', kind='struct')
    except Exception as ex:  # noqa: BLE001
        return violation(f'PackOperator raises {type(ex).__name__}: {str(ex)[:100]} for {key}', signature=f'c12-pack-ctor:{key}', kind='ctor')
    res = []
    got, _, _ = E.run(ctx, lambda x: PackOperator(mask, ins).mv(x), [('x', ins, 'sym')])
    want = _oracle_select(x, (mask_np,))
    if twin:
        want = jax.tree.map(lambda l: l * 2, want, is_leaf=E.is_sym)
    res.append(('pack-mv', dec.decide(ctx, pairs(got, want, ctx))))
    if n_out > 0:
        gt, _, _ = E.run(ctx, lambda y: PackOperator(mask, ins).T.mv(y), [('y', outs, 'sym')])
        res.append(('pack-T', dec.decide(ctx, pairs(gt, _oracle_scatter(y, (mask_np,), ins), ctx))))

        def ppt(reduce):
            def f(y):
                p = PackOperator(mask, ins)
                a = p @ p.T
                return (a.reduce() if reduce else a).mv(y)
            return f
        a1, _, _ = E.run(ctx, ppt(False), [('y', outs, 'sym')])
        b1, _, _ = E.run(ctx, ppt(True), [('y', outs, 'sym')])
        res.append(('pack-PPT', dec.decide(ctx, pairs(a1, b1, ctx))))
        res.append(('pack-PPT-id', dec.decide(ctx, pairs(b1, y, ctx))))

        def ptp(reduce):
            def f(x):
                p = PackOperator(mask, ins)
                a = p.T @ p
                return (a.reduce() if reduce else a).mv(x)
            return f
        a2, _, _ = E.run(ctx, ptp(False), [('x', ins, 'sym')])
        b2, _, _ = E.run(ctx, ptp(True), [('x', ins, 'sym')])
        res.append(('pack-PTP', dec.decide(ctx, pairs(a2, b2, ctx))))
    common = dict(prims=sorted(ctx.prims), **dec.stats())
    nob = common.pop('obligations')
    bad = [(n, r) for n, r in res if r.status != 'unsat']
    if not bad:
        return ok(obligations=nob, nontrivial=True, sample=dict(case=repr(key), verdict='unsat'), **common)
    if any(r.status == 'unknown' for _, r in bad):
        return inconclusive('solver unknown', obligations=nob, **common)
    name, r = bad[0]
    return violation(f'{name} fails for PackOperator mask={mk} on {kind}{shape}', model=r.model, signature=f'c12-{name}:{key}',
                     kind=name, twin=twin, obligations=nob, **common)


def replay(key, model, info):
    from furax._base.indices import IndexOperator
    from furax._base.linear import PackOperator
    twin = False
    if key and key[0] == 'twin':
        key, twin = key[1], True
    key = _tuplify(key)
    kind = info.get('kind')
    if key[0] == 'pack':
        _, pk, shape, mk = key
        mask_np = np.array(mk, dtype=bool)
        if pk == 'arr':
            ins = S(*shape)
        else:
            from furax.landscapes import StokesPyTree
            ins = StokesPyTree.class_for(pk).structure_for(shape, f64)
        outs = jax.tree.map(lambda l: S(int(mask_np.sum())), ins)
        try:
            op = PackOperator(jnp.asarray(mask_np), ins)
            x, y = model_tree(model, 'x', ins), model_tree(model, 'y', outs)
            if kind == 'pack-mv':
                want = jax.tree.map(lambda l: np.asarray(l)[mask_np] * (2 if twin else 1), x)
                close, msg = trees_close(op.mv(x), want)
            elif kind == 'pack-T':
                def sc(l, st):
                    z = np.zeros(st.shape)
                    z[mask_np] = np.asarray(l)
                    return z
                close, msg = trees_close(op.T.mv(y), jax.tree.map(sc, y, ins))
            elif kind == 'pack-PTP':
                close, msg = trees_close((op.T @ op).reduce().mv(x), (op.T @ op).mv(x))
            elif kind in ('pack-PPT', 'pack-PPT-id'):
                close, msg = trees_close((op @ op.T).reduce().mv(y), (op @ op.T).mv(y))
                if close and kind == 'pack-PPT-id':
                    close, msg = trees_close((op @ op.T).reduce().mv(y), y)
            else:
                return not structs_equal(op.out_structure(), outs), 'pack structure'
        except Exception as ex:  # noqa: BLE001
            return True, f'raises {type(ex).__name__}: {ex}'
        return (not close), f'{kind}: {msg}'
    _, shapes, spec = key
    npi, jxi = _np_index(spec), _jx_index(spec)
    ins = _in_struct(shapes)
    outs = jax.tree.map(lambda l: S(*np.empty(l.shape)[npi].shape), ins)
    idx_arg = jxi if len(jxi) != 1 else jxi[0]
    kw = dict(out_structure=outs) if info.get('variant', 'explicit') == 'explicit' else {}
    try:
        op = IndexOperator(idx_arg, in_structure=ins, **kw)
    except Exception as ex:  # noqa: BLE001
        return (kind == 'ctor'), f'constructor raises {type(ex).__name__}: {ex}'
    if kind == 'ctor':
        return False, 'constructor accepted'
    if kind == 'struct':
        bad = not structs_equal(op.out_structure(), outs) or not structs_equal(jax.eval_shape(op.mv, ins), outs)
        return bad, 'structure mismatch' if bad else 'structures agree'
    x, y = model_tree(model, 'x', ins), model_tree(model, 'y', outs)

    def scat(yl, st):
        z = np.zeros(st.shape)
        np.add.at(z, npi, np.asarray(yl))
        return z
    try:
        if kind == 'mv':
            close, msg = trees_close(op.mv(x), jax.tree.map(lambda l: np.asarray(l)[npi] * (2 if twin else 1), x))
        elif kind == 'T':
            close, msg = trees_close(op.T.mv(y), jax.tree.map(scat, y, ins))
        elif kind in ('PPT', 'PPT-id'):
            close, msg = trees_close((op @ op.T).reduce().mv(y), (op @ op.T).mv(y))
        elif kind in ('PTP', 'PTP-mult'):
            close, msg = trees_close((op.T @ op).reduce().mv(x), (op.T @ op).mv(x))
            if close:
                close, msg = trees_close((op.T @ op).reduce().mv(x), jax.tree.map(lambda l, st: scat(np.asarray(l)[npi], st), x, ins))
        elif kind == 'ptp-not-simplified':
            from furax._base.core import CompositionOperator
            r = (op.T @ op).reduce()
            return isinstance(r, CompositionOperator), f'(P.T @ P).reduce() is a {type(r).__name__}'
        elif kind == 'reduce-raises':
            (op @ op.T).reduce()
            (op.T @ op).reduce()
            return False, 'reduce did not raise'
        else:
            return False, f'unknown kind {kind}'
    except Exception as ex:  # noqa: BLE001
        return True, f'raises {type(ex).__name__}: {str(ex)[:200]}'
    return (not close), f'{kind} for IndexOperator{spec} on {shapes}: {msg}'
