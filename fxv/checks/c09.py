"""C09 - all Toeplitz evaluation methods compute the same banded product (exact FFT model)."""
from __future__ import annotations

import itertools

import jax
import jax.numpy as jnp
import numpy as np

from .. import interp as E
from ..common import Decider, S, f32, f64, model_tree, pairs, structs_equal, trees_close
from ..harness import inconclusive, ok, skipped, violation
from ..poly import Poly

ID = 'C09'
LEVEL = 'other'
TECHNIQUE = 'jaxpr-level symbolic execution (scatter/conv probed from the real primitives, FFT in an exact cyclotomic field) + z3 against the defining double sum'
EXPLANATION = ('SymmetricBandToeplitzOperator.mv is traced for each (n, K, method, fft_size, batch shape) with symbolic band '
               'values and symbolic input; DFTs are evaluated exactly in Q(zeta_M), so the comparison with '
               'sum_{|i-j|<K} band[|i-j|] x[j] is an exact polynomial identity decided by z3 for ALL band values and inputs. '
               'as_matrix(), symmetry (T is self), output aval (dtype under x64 on/off) and constructor rejections are checked per configuration.')
FUNCTIONS = ['SymmetricBandToeplitzOperator.__init__/_get_default_fft_size/_get_func/mv', '_apply_dense', '_apply_direct', '_apply_fft',
             '_apply_overlap_save', '_get_kernel', 'dense_symmetric_band_toeplitz', 'SymmetricBandToeplitzOperator.as_matrix']
BOUNDS = {'quick': 'n in 1..6, K in 1..4 (incl. K>n), fft_size in {default, 2K-1, 2K, 2K+2}, batch in {(), (2,)}; as_matrix for n<=4; '
                   'dtype/x64 matrix {f16,bf16,f32,f64}x{x64 on,off} at (n,K)=(4,2),(5,3)',
          'thorough': 'n in 1..10, K in 1..6, fft_size up to 2K+5 and 16, batch in {(), (2,), band (2,1,K) against x (2,3,n)}'}
STUBS = []
ASSUMPTIONS = ['real arithmetic (FFT rounding outside the claim)', 'band values no wider than the data dtype (narrower ones are in the dtype matrix: the result keeps the data dtype)']
RULE = 'case = (n, K, method, fft_size, batch); non-trivial = K >= 2 or batch; distinct keys'
BUDGET = {'quick': 400, 'thorough': 2400}
CASE_TIMEOUT = {'quick': 120, 'thorough': 600}
METHODS = ('dense', 'direct', 'fft', 'overlap_save')


def cases(tier, seed):
    out = []
    if tier == 'quick':
        ns, ks, batches = range(1, 7), range(1, 5), [(), (2,)]
    else:
        ns, ks, batches = range(1, 11), range(1, 7), [(), (2,), 'bc']
    for n, K, m in itertools.product(ns, ks, METHODS):
        ffts = [None]
        if m == 'overlap_save':
            ffts = [None, 2 * K - 1, 2 * K, 2 * K + 2] + ([2 * K + 5, 16] if tier == 'thorough' else [])
            ffts = [f for i, f in enumerate(ffts) if f is None or (f >= 2 * K - 1 and f not in ffts[:i])]
        for f in ffts:
            for b in batches:
                if tier == 'quick' and b == (2,) and (n + K) % 2:
                    continue  # halve the batch cases in the quick tier
                out.append(('mv', n, K, m, f, b))
    for n, K, m in itertools.product(range(1, 5 if tier == 'quick' else 7), range(1, 4), METHODS):
        out.append(('mat', n, K, m, None, ()))
        if n <= 3:
            out.append(('mat', n, K, m, None, (2,)))
    for m in METHODS:
        for dt, x64 in itertools.product(('f32', 'f64', 'f16', 'bf16'), (True, False)):
            if dt == 'f64' and not x64:
                continue
            out.append(('aval', 4, 2, m, None, (), dt, x64))
            out.append(('aval', 5, 3, m, None, (2,), dt, x64))
        # band values NARROWER than the data: the result still has the data dtype (= the declared output structure), for every method
        for bdt, dt, x64 in (('f16', 'f32', True), ('f16', 'f32', False), ('bf16', 'f32', True), ('f32', 'f64', True), ('f16', 'f64', True)):
            out.append(('aval', 4, 2, m, None, (), dt, x64, bdt))
            out.append(('aval', 5, 3, m, None, (2,), dt, x64, bdt))
    out.append(('reject',))
    return out


def twins():
    return [('mv', 4, 2, 'overlap_save', None, ()), ('mv', 3, 2, 'dense', None, ())]


def _shapes(n, K, b):
    if b == 'bc':
        return (2, 1, K), (2, 3, n)
    return tuple(b) + (K,), tuple(b) + (n,)


def _mk(n, K, m, f, b, dtype=f64):
    from furax.operators.toeplitz import SymmetricBandToeplitzOperator
    bs, xs = _shapes(n, K, b)
    kw = {} if f is None else {'fft_size': f}
    return (lambda h: SymmetricBandToeplitzOperator(h, S(*xs, dtype=dtype), method=m, **kw)), S(*bs, dtype=dtype), S(*xs, dtype=dtype)


def _oracle(h, x, n, K, shift=0):
    """T x with T[i,j] = band[|i-j|] for |i-j|<K, per batch row (NumPy broadcasting of the batch axes)."""
    bshape = np.broadcast_shapes(h.shape[:-1], x.shape[:-1])
    hb = np.broadcast_to(h, bshape + (K,))
    xb = np.broadcast_to(x, bshape + (n,))
    out = np.empty(bshape + (n,), dtype=object)
    for bi in np.ndindex(*bshape):
        for i in range(n):
            acc = Poly()
            for j in range(n):
                d = abs(i - j) + shift
                if d < K:
                    acc = acc + hb[bi + (d,)] * xb[bi + (j,)]
            out[bi + (i,)] = acc
    return out


def run_case(key, twin=False):
    if key and key[0] == 'twin':
        return run_case(key[1], twin=True)
    kind = key[0]
    if kind == 'reject':
        return _reject()
    if kind == 'aval':
        return _aval(key)
    _, n, K, m, f, b = key
    mk, hs, xs = _mk(n, K, m, f, b)
    try:
        op0 = mk(jnp.ones(hs.shape))
    except Exception as ex:  # noqa: BLE001
        return violation(f'constructor raises {type(ex).__name__}: {ex} for legal configuration {key}',
                         signature=f'c09-ctor:{key}', kind='ctor')
    ctx = E.Ctx()
    dec = Decider(timeout_ms=60000)
    h, x = E.symbols('h', hs), E.symbols('x', xs)
    res = []
    if kind == 'mv':
        y, ys, _ = E.run(ctx, lambda h, x: mk(h).mv(x), [('h', hs, 'sym'), ('x', xs, 'sym')])
        if not structs_equal(ys, xs):
            return violation(f'output aval {ys} differs from input aval {xs} for {key}', signature=f'c09-aval:{key}', kind='aval')
        want = _oracle(h, x, n, K, shift=1 if twin else 0)
        res.append(dec.decide(ctx, pairs(y, want, ctx)))
        if op0.T is not op0:
            return violation(f'T is not self for {key}', signature=f'c09-sym:{key}', kind='sym')
    else:
        Mx, ms, _ = E.run(ctx, lambda h: mk(h).as_matrix(), [('h', hs, 'sym')])
        bshape = np.broadcast_shapes(hs.shape[:-1], xs.shape[:-1])
        nb = int(np.prod(bshape)) if bshape else 1
        if tuple(ms.shape) != (nb * n, nb * n):
            return violation(f'as_matrix shape {ms.shape} for {key}', signature=f'c09-mat:{key}', kind='mat')
        hb = np.broadcast_to(h, bshape + (K,)).reshape(nb, K)
        want = np.empty((nb * n, nb * n), dtype=object)
        for idx in np.ndindex(*want.shape):
            want[idx] = Poly()
        for r in range(nb):
            for i in range(n):
                for j in range(n):
                    if abs(i - j) < K:
                        want[r * n + i, r * n + j] = hb[r, abs(i - j)]
        res.append(dec.decide(ctx, pairs(Mx, want, ctx)))
        res.append(dec.decide(ctx, pairs(Mx, E.fix(Mx).T if E.is_sym(Mx) else np.asarray(Mx).T, ctx)))
    common = dict(prims=sorted(ctx.prims), **dec.stats())
    nob = common.pop('obligations')
    if all(r.status == 'unsat' for r in res):
        return ok(obligations=nob, nontrivial=(K >= 2 or b != ()),
                  sample=dict(case=repr(key), field=(ctx.field.M if ctx.field else None), verdict='unsat', smt_digest=res[0].digest), **common)
    if any(r.status == 'unknown' for r in res):
        return inconclusive('solver unknown', obligations=nob, **common)
    bad = next(r for r in res if r.status == 'sat')
    return violation(f'Toeplitz {kind} differs from the banded product for {key}', model=bad.model, signature=f'c09:{key}',
                     kind=kind, twin=twin, obligations=nob, **common)


def _aval(key):
    _, n, K, m, f, b, dt, x64 = key[:8]
    names = {'f32': f32, 'f64': f64, 'f16': jnp.float16, 'bf16': jnp.bfloat16}
    dtype = names[dt]
    bdtype = names[key[8]] if len(key) > 8 else dtype
    mk, hs, xs = _mk(n, K, m, f, b, dtype)

    def go():
        h = jnp.ones(hs.shape, bdtype)
        op = mk(h)
        x = jnp.ones(xs.shape, dtype)
        return jax.eval_shape(op.mv, x), op.out_structure(), jax.eval_shape(op.as_matrix)
    try:
        if x64:
            got, declared, mat = go()
        else:
            with jax.enable_x64(False):
                got, declared, mat = go()
    except Exception as ex:  # noqa: BLE001
        return violation(f'mv raises {type(ex).__name__}: {str(ex)[:150]} for dtype={dt} band={key[8:]} x64={x64} method={m}',
                         signature=f'c09-aval-raises:{m}:{dt}:{key[8:]}:x64={x64}', kind='aval-raises')
    if tuple(got.shape) != tuple(xs.shape) or np.dtype(got.dtype) != np.dtype(dtype) or not structs_equal(declared, got):
        return violation(f'output aval {got} != input aval {xs} (declared {declared}) for dtype={dt} band={key[8:]} x64={x64} method={m}',
                         signature=f'c09-aval:{m}:{dt}:{key[8:]}:x64={x64}', kind='aval')
    return ok(nontrivial=True, sample=dict(case=repr(key), out=str(got)))


def _reject():
    from furax.operators.toeplitz import SymmetricBandToeplitzOperator as T
    st = S(5)
    h = jnp.ones(3)
    bad = []
    # only what the statement calls illegal: a method that does not exist, an FFT size below the number of bands (2K-1 = 5 here).
    # (An FFT size handed to a method that does not use one, or the dormant 'overlap_add' method, are not pinned.)
    must_raise = [dict(method='nope'), dict(method='overlap_save', fft_size=4), dict(method='overlap_save', fft_size=1)]
    for kw in must_raise:
        try:
            T(h, st, **kw)
            bad.append(f'accepted {kw}')
        except Exception:  # noqa: BLE001  ("rejected": any error)
            pass
    for kw in [dict(method='overlap_save', fft_size=5), dict(method='overlap_save', fft_size=6), dict(method='overlap_save'), dict()]:
        try:
            op = T(h, st, **kw)
            if op.fft_size is None or op.fft_size < 5:
                bad.append(f'{kw}: fft_size {op.fft_size} < number of bands')
        except Exception as ex:  # noqa: BLE001
            bad.append(f'legal {kw} rejected: {ex}')
    for K in range(1, 40):
        fs = T(jnp.ones(K), S(4), method='overlap_save').fft_size
        if fs is None or fs < 2 * K - 1:
            bad.append(f'default fft size {fs} < {2 * K - 1}')
    if bad:
        return violation('constructor validation: ' + '; '.join(bad), signature='c09-reject:' + ';'.join(bad)[:120], kind='reject')
    return ok(nontrivial=True, obligations=len(must_raise) + 4, sample=dict(case='constructor rejections', checked=len(must_raise) + 4 + 39))


def replay(key, model, info):
    twin = False
    if key and key[0] == 'twin':
        key, twin = key[1], True
    key = tuple(tuple(k) if isinstance(k, list) else k for k in key)
    kind = info.get('kind')
    if kind in ('reject',):
        r = _reject()
        return r['status'] == 'violation', r.get('what', 'ok')
    if kind in ('aval', 'aval-raises') and key[0] == 'aval':
        r = _aval(key)
        return r['status'] == 'violation', r.get('what', 'ok')
    _, n, K, m, f, b = key[:6]
    mk, hs, xs = _mk(n, K, m, f, b)
    if kind == 'ctor':
        try:
            mk(jnp.ones(hs.shape))
        except Exception as ex:  # noqa: BLE001
            return True, f'constructor raises {type(ex).__name__}: {ex} for the legal configuration {key}'
        return False, 'constructor accepted the configuration'
    h = model_tree(model, 'h', hs)
    op = mk(h)
    if kind == 'sym':
        return op.T is not op, 'T is not self'
    hn = np.asarray(h)
    bshape = np.broadcast_shapes(hs.shape[:-1], xs.shape[:-1])
    if key[0] == 'mv':
        x = model_tree(model, 'x', xs)
        got = np.asarray(op.mv(x))
        hb = np.broadcast_to(hn, bshape + (K,))
        xb = np.broadcast_to(np.asarray(x), bshape + (n,))
        want = np.zeros(bshape + (n,))
        sh = 1 if twin else 0
        for bi in np.ndindex(*bshape):
            for i in range(n):
                want[bi + (i,)] = sum(hb[bi + (abs(i - j) + sh,)] * xb[bi + (j,)] for j in range(n) if abs(i - j) + sh < K)
        close, msg = trees_close(got, want)
        return (not close), f'{key}: mv vs banded product: {msg}'
    got = np.asarray(op.as_matrix())
    nb = int(np.prod(bshape)) if bshape else 1
    hb = np.broadcast_to(hn, bshape + (K,)).reshape(nb, K)
    want = np.zeros((nb * n, nb * n))
    for r in range(nb):
        for i in range(n):
            for j in range(n):
                if abs(i - j) < K:
                    want[r * n + i, r * n + j] = hb[r, abs(i - j)]
    if got.shape != want.shape:
        return True, f'as_matrix shape {got.shape}'
    close, msg = trees_close(got, want)
    return (not close), f'{key}: as_matrix: {msg}'
