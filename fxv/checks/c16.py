"""C16 - the projection / acquisition operators equal the explicit pointing model."""
from __future__ import annotations

import itertools
import math

import jax
import jax.numpy as jnp
import numpy as np

from .. import interp as E
from ..common import Decider, S, f64, model_tree, pairs, structs_equal, trees_close, describe_struct
from ..harness import inconclusive, ok, skipped, violation
from ..poly import Poly
from .c01 import _tuplify

ID = 'C16'
LEVEL = 'other'
TECHNIQUE = 'jaxpr-level symbolic execution of create_projection_operator / create_acquisition (exact trig model) + z3 against the explicit pointing model; pixel lookup compared concretely with healpy'
EXPLANATION = ('(a) create_projection_operator is traced with symbolic pointing angles (theta, phi, psi) and symbolic detector directions up to the '
               'call of vec2dir (recording shim): z3 decides that the rotated direction equals Rz(phi) Ry(theta) Rz(psi) d for ALL angles and '
               'directions. (b) For enumerated concrete pointings the pixel indices are computed by the real world2index; the real factories are '
               'then traced with SYMBOLIC position angles and symbolic sky (world2index shimmed to those indices): for all skies and angles '
               'P(sky)[d,t] = R(psi_t) sky[pix(d,t)], H(sky)[d,t] = (I + Q cos 2psi_t - U sin 2psi_t)/2 [pix(d,t)], before and after reduce(), and '
               '(P.T @ P)(sky) = hits * sky before and after reduce(). (c) pix(d,t) of the real code is compared concretely with healpy.ang2pix '
               'on independently rotated directions that are robustly interior to a pixel (no solver in (c)).')
FUNCTIONS = ['projections.get_rotation_matrix', 'projections.create_projection_operator (einsum index order, reshape of indices)', 'instruments.sat.create_acquisition',
             'QURotationOperator wiring of samplings.pa', 'RavelOperator/IndexOperator composition', 'TransposeIndexRule on 2-d index arrays', 'LinearPolarizerHWPRule/QURotationHWPRule in the acquisition chain']
BOUNDS = {'quick': 'nside 1 and 2; Stokes I/QU/IQU/IQUV; 1-3 detectors x 1-2 directions; 2-4 samples; 6 seeded pointings per configuration',
          'thorough': 'nside 1, 2, 4; seven detector/direction/sample layouts; 20 pointings per IQU configuration'}
STUBS = ['furax.projections.vec2dir -> recording shim (harness (a) only)',
         'StokesLandscape.world2index -> returns the indices the real method computed for the witness pointing (harness (b) only)',
         'Sampling.__len__ -> product of the broadcast shapes (np.broadcast cannot see traced arrays)']
ASSUMPTIONS = ['real arithmetic; exact trig model', 'the pixel of (d,t) is the one of the witness pointing: the dependence of the pixel itself on psi is covered by (a)+(c), not by (b)',
               'create_random_sampling (SciPy alias sampler) is not claimed', 'HEALPix lookup itself (jax_healpy) is compared only concretely in (c)']
RULE = 'case = (clause, nside, Stokes kind, detector layout, number of samples, pointing seed); non-trivial = symbolic angles present; distinct keys'
BUDGET = {'quick': 400, 'thorough': 1800}


def cases(tier, seed):
    out = []
    for ndet, ndir, ns in [(1, 1, 2), (2, 1, 2), (2, 2, 2), (3, 1, 3)]:
        out.append(('rot', ndet, ndir, ns))
    npoint = 6 if tier == 'quick' else 20
    cfgs = []
    for nside in ((1, 2) if tier == 'quick' else (1, 2, 4)):
        for st in ('I', 'QU', 'IQU', 'IQUV'):
            for ndet, ndir, ns in [(1, 1, 2), (2, 1, 3), (3, 1, 4), (2, 2, 2)] + ([(3, 2, 3), (4, 1, 2), (2, 1, 2)] if tier == 'thorough' else []):
                cfgs.append((nside, st, ndet, ndir, ns))
    for cfg in cfgs:
        for k in range(npoint if cfg[1] == 'IQU' else 2):
            out.append(('proj',) + cfg + (seed * 1000 + k,))
            if cfg[3] == 1:
                out.append(('acq',) + cfg + (seed * 1000 + k,))
    for nside in (1, 2, 4):
        for k in range(3):
            out.append(('pix', nside, seed * 1000 + k))
    out.append(('detectors',))
    return out


def twins():
    return [('rot', 2, 1, 2), ('acq', 1, 'IQU', 2, 1, 3, 0)]


# ---- helpers -----------------------------------------------------------------------------------

def _pointing(ns, ndet, ndir, seed):
    rng = np.random.default_rng(seed)
    theta = rng.uniform(0.3, 2.8, ns)
    phi = rng.uniform(0.0, 6.28, ns)
    pa = rng.uniform(0.0, 6.28, ns)
    dx = rng.uniform(-0.2, 0.2, (ndet, ndir))
    dy = rng.uniform(-0.2, 0.2, (ndet, ndir))
    return theta, phi, pa, dx, dy


DET_Z = 0.57   # focal-plane units: the inputs are deliberately not unit vectors


def _detectors(dx, dy):
    from furax.detectors import DetectorArray
    return DetectorArray(dx, dy, DET_Z)


class _shims:
    """Install / remove the stubs of harness (b)."""

    def __init__(self, idx):
        self.idx = idx

    def __enter__(self):
        from furax.landscapes import StokesLandscape
        from furax.samplings import Sampling
        self.w2i, self.len = StokesLandscape.world2index, Sampling.__len__
        idx = self.idx
        StokesLandscape.world2index = lambda self_, t, p: idx
        Sampling.__len__ = lambda s: math.prod(jnp.broadcast_shapes(jnp.shape(s.theta), jnp.shape(s.phi), jnp.shape(s.pa)))

    def __exit__(self, *a):
        from furax.landscapes import StokesLandscape
        from furax.samplings import Sampling
        StokesLandscape.world2index, Sampling.__len__ = self.w2i, self.len


def _cs2(atom, ctx):
    ctx.trig[atom] = True
    C, Sn = Poly.var('C$' + atom), Poly.var('S$' + atom)
    return C * C - Sn * Sn, 2 * Sn * C


def run_case(key, twin=False):
    if key and key[0] == 'twin':
        return run_case(key[1], twin=True)
    if key[0] == 'rot':
        return _rot(key, twin)
    if key[0] == 'pix':
        return _pix(key)
    if key[0] == 'detectors':
        return _detector_array()
    return _model(key, twin)


def _detector_array():
    """Concrete: DetectorArray (pure NumPy, not traceable) stores the unit vector of (x, y, z) for any broadcastable, non-unit input."""
    from furax.detectors import DetectorArray
    rng = np.random.default_rng(5)
    bad, n = [], 0
    for shape, zkind in [((3,), 'scalar'), ((3,), 'array'), ((2, 3), 'scalar'), ((2, 3), 'array'), ((1,), 'scalar'), ((4, 1), 'row')]:
        for scale in (1.0, 0.57, 3.0):
            x, y = rng.uniform(-0.3, 0.3, shape), rng.uniform(-0.3, 0.3, shape)
            z = scale if zkind == 'scalar' else (rng.uniform(0.4, 2.0, shape) if zkind == 'array' else rng.uniform(0.4, 2.0, (1, 3)))
            det = DetectorArray(x, y, z)
            full = np.broadcast_arrays(x, y, z)
            want = np.stack(full) / np.sqrt(sum(c ** 2 for c in full))
            got = np.asarray(det.coords)
            n += 1
            if got.shape != want.shape or tuple(det.shape) != want.shape[1:] or len(det) != int(np.prod(want.shape[1:])):
                bad.append(f'shape {got.shape} / {det.shape} for inputs {shape}, z {zkind}')
            elif not np.allclose(got, want, rtol=1e-12, atol=1e-14):
                k = np.unravel_index(np.argmax(np.abs(got - want)), got.shape)
                bad.append(f'inputs {shape}, z {zkind} x{scale}: coords{tuple(int(i) for i in k)} = {got[k]:.6f}, unit vector of (x, y, z) has {want[k]:.6f}')
    # the pointing model itself must be built on the constructor ARGUMENTS: a boresight offset in focal-plane units
    if bad:
        return violation('DetectorArray does not store the unit direction of (x, y, z): ' + '; '.join(bad[:3]), signature='c16-detector-array', kind='detectors')
    return ok(obligations=0, concrete_checks=n, nontrivial=True, sample=dict(case='DetectorArray normalisation', layouts=n))


class _Captured(Exception):
    def __init__(self, a):
        self.a = a


def _rot(key, twin):
    import furax.projections as proj
    from furax.landscapes import HealpixLandscape
    from furax.samplings import Sampling
    _, ndet, ndir, ns = key
    ctx = E.Ctx()
    dec = Decider()
    orig = proj.vec2dir

    def shim(*a):
        raise _Captured(a)

    def f(th, ph, pa, coords):
        det = _detectors(np.zeros((ndet, ndir)), np.zeros((ndet, ndir)))
        det.coords = coords
        try:
            proj.create_projection_operator(HealpixLandscape(1, 'IQU', f64), Sampling(th, ph, pa), det)
        except _Captured as c:
            return c.a
        raise RuntimeError('vec2dir was not called')
    proj.vec2dir = shim
    try:
        out, _, _ = E.run(ctx, f, [('th', S(ns), 'sym'), ('ph', S(ns), 'sym'), ('pa', S(ns), 'sym'), ('d', S(3, ndet, ndir), 'sym')])
    finally:
        proj.vec2dir = orig
    P = Poly.var

    def Rz(c, s):
        return [[c, -s, 0], [s, c, 0], [0, 0, 1]]

    def Ry(c, s):
        return [[c, 0, s], [0, 1, 0], [-s, 0, c]]

    def mm(A, B):
        return [[sum((A[i][k] * B[k][j] for k in range(3)), Poly()) for j in range(3)] for i in range(3)]
    lift3 = lambda M: [[e if isinstance(e, Poly) else Poly.const(e) for e in r] for r in M]  # noqa: E731
    prs = []
    if len(out) != 3 or tuple(np.shape(out[0])) != (ndet, ndir, ns):
        return violation(f'vec2dir receives {len(out)} arrays of shape {np.shape(out[0])}, expected 3 x {(ndet, ndir, ns)}', signature='c16-rot-shape', kind='rot-shape')
    for k in range(ns):
        c1, s1 = P(f'C$ph0_{k}'), P(f'S$ph0_{k}')
        c2, s2 = P(f'C$th0_{k}'), P(f'S$th0_{k}')
        c3, s3 = P(f'C$pa0_{k}'), P(f'S$pa0_{k}')
        if twin:
            c1, s1, c3, s3 = c3, s3, c1, s1
        for a in (f'ph0_{k}', f'th0_{k}', f'pa0_{k}'):
            ctx.trig[a] = True
        R = mm(mm(lift3(Rz(c1, s1)), lift3(Ry(c2, s2))), lift3(Rz(c3, s3)))
        for l in range(ndet):
            for m in range(ndir):
                for i in range(3):
                    exp = sum((R[i][j] * P(f'd0_{j}_{l}_{m}') for j in range(3)), Poly())
                    prs.append((E.to_obj(out[i])[l, m, k], exp))
    r = dec.decide(ctx, prs)
    common = dict(prims=sorted(ctx.prims), **dec.stats())
    nob = common.pop('obligations')
    if r.status == 'unsat':
        return ok(obligations=nob, nontrivial=True, sample=dict(case=repr(key), clause='rotated direction = Rz(phi) Ry(theta) Rz(psi) d', angle_atoms=len(ctx.trig), verdict='unsat'), **common)
    if r.status == 'unknown':
        return inconclusive('solver unknown', obligations=nob, **common)
    return violation(f'Euler rotation of the detector directions differs from Rz(phi) Ry(theta) Rz(psi) d for {key}', model=r.model, signature=f'c16-rot:{key}', kind='rot', twin=twin, obligations=nob, **common)


def _witness(key):
    import furax.projections as proj
    from furax.landscapes import HealpixLandscape
    from furax.samplings import Sampling
    _, nside, st, ndet, ndir, ns, seed = key
    theta, phi, pa, dx, dy = _pointing(ns, ndet, ndir, seed)
    land = HealpixLandscape(nside, st, f64)
    det = _detectors(dx, dy)
    samp = Sampling(jnp.asarray(theta), jnp.asarray(phi), jnp.asarray(pa))
    rot = proj.get_rotation_matrix(samp)
    th, ph = proj.vec2dir(*jnp.einsum('ijk, jlm -> ilmk', rot, det.coords))
    idx = land.world2index(th, ph)
    return land, det, theta, phi, pa, idx


def _model(key, twin):
    import furax.instruments.sat as sat
    import furax.projections as proj
    from furax.samplings import Sampling
    mode, nside, st, ndet, ndir, ns, seed = key
    land, det, theta, phi, pa0, IDX = _witness(key)
    npix = 12 * nside ** 2
    idx = np.asarray(IDX)
    if idx.shape != (ndet, ndir, ns):
        return violation(f'world2index returns shape {idx.shape}, expected {(ndet, ndir, ns)}', signature='c16-idx-shape', kind='idx-shape')
    tod_idx = idx.reshape(ndet, ns) if ndir == 1 else idx
    ctx = E.Ctx()
    dec = Decider()
    sky_st = land.structure
    sky = E.symbols('sky', sky_st)
    comp = {c: getattr(sky, c) for c in st.lower()}
    th_j, ph_j = jnp.asarray(theta), jnp.asarray(phi)
    make = (lambda pa: proj.create_projection_operator(land, Sampling(th_j, ph_j, pa), det)) if mode == 'proj' else \
        (lambda pa: sat.create_acquisition(land, Sampling(th_j, ph_j, pa), det))
    res = []
    with _shims(IDX):
        try:
            op0 = make(jnp.asarray(pa0))
        except Exception as ex:  # noqa: BLE001
            return violation(f'{mode} operator cannot be built for {key}: {type(ex).__name__}: {str(ex)[:150]}', signature=f'c16-build:{mode}:{type(ex).__name__}', kind='build')
        variants = [('as built', lambda o: o), ('reduced', lambda o: o.reduce())]
        outs = {}
        for vname, f in variants:
            y, ys, _ = E.run(ctx, lambda pa, s: f(make(pa)).mv(s), [('pa', S(ns), 'sym'), ('sky', sky_st, 'sym')])
            outs[vname] = (y, ys)
        if mode == 'proj':
            for vname, f in variants:
                z, zs, _ = E.run(ctx, lambda pa, s: (lambda P: f(P.T @ P).mv(s))(make(pa)), [('pa', S(ns), 'sym'), ('sky', sky_st, 'sym')])
                outs['hits ' + vname] = (z, zs)
    # oracle
    shape = tod_idx.shape
    want = {c: np.empty(shape, dtype=object) for c in st.lower()}
    acq = np.empty(shape, dtype=object)
    for pos in np.ndindex(*shape):
        t = pos[-1]
        p = int(tod_idx[pos])
        c2, s2 = _cs2(f'pa0_{t}', ctx)
        if twin:
            s2 = -s2
        vals = {c: comp[c][p] for c in comp}
        if 'q' in vals:
            q = vals['q'] * c2 - vals['u'] * s2
            u = vals['q'] * s2 + vals['u'] * c2
        for c in comp:
            want[c][pos] = {'i': vals.get('i'), 'v': vals.get('v'), 'q': q if 'q' in vals else None, 'u': u if 'q' in vals else None}[c]
        if st == 'I':
            acq[pos] = vals['i'] * 0.5
        elif st == 'QU':
            acq[pos] = (vals['q'] * c2 - vals['u'] * s2) * 0.5
        else:
            acq[pos] = (vals['i'] + vals['q'] * c2 - vals['u'] * s2) * 0.5
    for vname, _ in variants:
        y, ys = outs[vname]
        if mode == 'proj':
            got = [e for c in st.lower() for e in E.to_obj(getattr(y, c)).reshape(-1)]
            exp = [e for c in st.lower() for e in want[c].reshape(-1)]
        else:
            got = list(E.to_obj(y).reshape(-1)) if not hasattr(y, 'stokes') else None
            exp = list(acq.reshape(-1))
            if got is None or tuple(np.shape(y)) != (ndet, ns):
                return violation(f'acquisition output is {describe_struct(ys)}, expected an array of shape {(ndet, ns)}', signature=f'c16-acq-shape:{st}', kind='acq-shape')
        if len(got) != len(exp):
            return violation(f'{mode} output has {len(got)} elements, the model {len(exp)}', signature=f'c16-shape:{mode}', kind='shape')
        res.append((f'{mode} {vname} = pointing model', dec.decide(ctx, list(zip(got, exp)))))
    if mode == 'proj':
        hits = np.bincount(tod_idx.reshape(-1), minlength=npix)
        exp = [comp[c][p] * int(hits[p]) for c in st.lower() for p in range(npix)]
        for vname, _ in variants:
            z, zs = outs['hits ' + vname]
            if not structs_equal(zs, sky_st):
                return violation(f'P.T @ P ({vname}) returns {describe_struct(zs)}', signature='c16-hits-struct', kind='hits-struct')
            got = [e for c in st.lower() for e in E.to_obj(getattr(z, c)).reshape(-1)]
            res.append((f'P.T @ P {vname} = hits * sky', dec.decide(ctx, list(zip(got, exp)))))
    common = dict(prims=sorted(ctx.prims), **dec.stats())
    nob = common.pop('obligations')
    bad = [(n, r) for n, r in res if r.status != 'unsat']
    if not bad:
        from ..programs import optree
        return ok(obligations=nob, nontrivial=True, sample=dict(case=repr(key), pixels=tod_idx.tolist(), operator=repr(optree(op0))[:200], checks=[n for n, _ in res], verdict='unsat'), **common)
    if any(r.status == 'unknown' for _, r in bad):
        return inconclusive('solver unknown: ' + bad[0][0], obligations=nob, **common)
    n, r = bad[0]
    return violation(f'{n} fails for {key}', model=r.model, signature=f'c16-{n}:{key[:6]}', kind=n, twin=twin, obligations=nob, **common)


def _pix(key):
    """Concrete: pixel of the real code vs healpy.ang2pix on an independently rotated direction, robustly interior."""
    import healpy as hp
    import furax.projections as proj
    from furax.landscapes import HealpixLandscape
    from furax.samplings import Sampling
    _, nside, seed = key
    ns, ndet, ndir = 6, 3, 2
    theta, phi, pa, dx, dy = _pointing(ns, ndet, ndir, seed + 77)
    land = HealpixLandscape(nside, 'I', f64)
    det = _detectors(dx, dy)
    op = proj.create_projection_operator(land, Sampling(jnp.asarray(theta), jnp.asarray(phi), jnp.asarray(pa)), det)
    # find the index operator inside the projection
    from furax._base.indices import IndexOperator
    ix = [o for o in op.operands if isinstance(o, IndexOperator)]
    if len(ix) != 1:
        return violation('projection operator does not contain exactly one IndexOperator', signature='c16-pix-structure', kind='pix')
    got = np.asarray(ix[0].indices[0])
    # expected directions from the constructor ARGUMENTS (not from det.coords, which is what is being checked)
    d = np.stack([dx, dy, np.full_like(dx, DET_Z)])
    d = d / np.linalg.norm(d, axis=0)      # (3, ndet, ndir)
    bad, checked, skipped_n = [], 0, 0
    for t in range(ns):
        a, b, g = phi[t], theta[t], pa[t]
        Rz = lambda x: np.array([[np.cos(x), -np.sin(x), 0], [np.sin(x), np.cos(x), 0], [0, 0, 1]])  # noqa: E731
        Ry = lambda x: np.array([[np.cos(x), 0, np.sin(x)], [0, 1, 0], [-np.sin(x), 0, np.cos(x)]])  # noqa: E731
        R = Rz(a) @ Ry(b) @ Rz(g)
        for l in range(ndet):
            for m in range(ndir):
                v = R @ d[:, l, m]
                th, ph = np.arccos(v[2] / np.linalg.norm(v)), np.arctan2(v[1], v[0])
                p0 = hp.ang2pix(nside, th, ph)
                robust = all(hp.ang2pix(nside, min(max(th + e1, 1e-9), np.pi - 1e-9), ph + e2) == p0 for e1 in (-1e-6, 0, 1e-6) for e2 in (-1e-6, 0, 1e-6))
                if not robust:
                    skipped_n += 1
                    continue
                checked += 1
                if int(got[l, m, t]) != int(p0):
                    bad.append(f'detector {l} direction {m} sample {t}: furax pixel {int(got[l, m, t])}, healpy {int(p0)}')
    if bad:
        return violation(f'pixel lookup differs from healpy (nside {nside}): ' + '; '.join(bad[:4]), signature=f'c16-pix:{nside}', kind='pix')
    return ok(obligations=0, concrete_checks=checked, nontrivial=True, sample=dict(case=repr(key), directions_checked=checked, near_pixel_edge_skipped=skipped_n))


def replay(key, model, info):
    twin = False
    if key and key[0] == 'twin':
        key, twin = key[1], True
    key = _tuplify(key)
    kind = info.get('kind') or ''
    if key[0] in ('pix', 'detectors') or kind in ('build', 'idx-shape', 'acq-shape', 'shape', 'hits-struct', 'rot-shape'):
        r = run_case(key)
        return r['status'] == 'violation', r.get('what', 'ok')
    if key[0] == 'rot':
        import furax.projections as proj
        from furax.landscapes import HealpixLandscape
        from furax.samplings import Sampling
        _, ndet, ndir, ns = key
        th, ph, pa = (np.asarray(model_tree(model, n, S(ns))) for n in ('th', 'ph', 'pa'))
        d = np.asarray(model_tree(model, 'd', S(3, ndet, ndir)))
        orig = proj.vec2dir
        cap = {}

        def shim(*a):
            cap['a'] = a
            raise _Captured(a)
        proj.vec2dir = shim
        try:
            det = _detectors(np.zeros((ndet, ndir)), np.zeros((ndet, ndir)))
            det.coords = jnp.asarray(d)
            try:
                proj.create_projection_operator(HealpixLandscape(1, 'IQU', f64), Sampling(jnp.asarray(th), jnp.asarray(ph), jnp.asarray(pa)), det)
            except _Captured:
                pass
        finally:
            proj.vec2dir = orig
        got = np.stack([np.asarray(a) for a in cap['a']])
        worst = 0.0
        for k in range(ns):
            a, b, g = (ph[k], th[k], pa[k]) if not twin else (pa[k], th[k], ph[k])
            Rz = lambda x: np.array([[np.cos(x), -np.sin(x), 0], [np.sin(x), np.cos(x), 0], [0, 0, 1]])  # noqa: E731
            Ry = lambda x: np.array([[np.cos(x), 0, np.sin(x)], [0, 1, 0], [-np.sin(x), 0, np.cos(x)]])  # noqa: E731
            R = Rz(a) @ Ry(b) @ Rz(g)
            for l in range(ndet):
                for m in range(ndir):
                    worst = max(worst, float(np.max(np.abs(got[:, l, m, k] - R @ d[:, l, m]))))
        return worst > 1e-9, f'max deviation from Rz(phi)Ry(theta)Rz(psi)d: {worst:.3e}'
    # model cases: numeric evaluation with the real (unshimmed) library at the witness pointing but the model's psi is not
    # consistent with the pixels, so replay under the same shim
    import furax.instruments.sat as sat
    import furax.projections as proj
    from furax.samplings import Sampling
    mode, nside, st, ndet, ndir, ns, seed = key
    land, det, theta, phi, pa0, IDX = _witness(key)
    pa = np.asarray(model_tree(model, 'pa', S(ns)))
    sky = model_tree(model, 'sky', land.structure)
    tod_idx = np.asarray(IDX).reshape(ndet, ns) if ndir == 1 else np.asarray(IDX)
    with _shims(IDX):
        samp = Sampling(jnp.asarray(theta), jnp.asarray(phi), jnp.asarray(pa))
        op = proj.create_projection_operator(land, samp, det) if mode == 'proj' else sat.create_acquisition(land, samp, det)
        if 'reduced' in kind:
            op = op.reduce()
        if kind.startswith('P.T @ P'):
            Pop = proj.create_projection_operator(land, samp, det)
            A = Pop.T @ Pop
            if 'reduced' in kind:
                A = A.reduce()
            got = A.mv(sky)
            hits = np.bincount(tod_idx.reshape(-1), minlength=12 * nside ** 2)
            want = jax.tree.map(lambda l: np.asarray(l) * hits, sky)
            close, msg = trees_close(got, want)
            return (not close), f'{kind}: {msg}'
        got = op.mv(sky)
    c2 = np.cos(2 * pa)[tod_idx.ndim * (None,)[:-1] + (slice(None),)] if False else np.broadcast_to(np.cos(2 * pa), tod_idx.shape)
    s2 = np.broadcast_to(np.sin(2 * pa), tod_idx.shape) * (-1 if twin else 1)
    v = {c: np.asarray(getattr(sky, c))[tod_idx] for c in st.lower()}
    if mode == 'acq':
        want = 0.5 * v['i'] if st == 'I' else (0.5 * (v['q'] * c2 - v['u'] * s2) if st == 'QU' else 0.5 * (v['i'] + v['q'] * c2 - v['u'] * s2))
        close, msg = trees_close(np.asarray(got), want)
    else:
        w = dict(v)
        if 'q' in v:
            w['q'], w['u'] = v['q'] * c2 - v['u'] * s2, v['q'] * s2 + v['u'] * c2
        close, msg = trees_close({c: np.asarray(getattr(got, c)) for c in st.lower()}, w)
    return (not close), f'{kind} for {key}: {msg}'
