"""C20 - Stokes containers act component-wise; pytree helpers agree with them."""
from __future__ import annotations

import itertools
import operator

import jax
import jax.numpy as jnp
import numpy as np

from .. import interp as E
from ..common import Decider, S, describe_struct, f32, f64, model_tree, pairs, structs_equal, trees_close
from ..cyc import Cyc, Field
from ..harness import inconclusive, ok, skipped, violation
from ..poly import Poly
from .c01 import _tuplify

ID = 'C20'
LEVEL = 'other'
TECHNIQUE = 'jaxpr-level symbolic execution of StokesPyTree arithmetic / furax.tree.dot + z3 against component-wise expressions (uninterpreted pow for general exponents, Q(i) for complex leaves); structure/dtype matrix on the IR'
EXPLANATION = ('For the four Stokes kinds every binary operation (+ - * / **, direct and reflected) with Python scalars, 0-d and broadcastable '
               'JAX arrays and containers of the same kind is traced with symbolic components; z3 decides that each component of the result is '
               'the operation applied to that component with the operands in the written order (general exponents via an uninterpreted pow, '
               'which still distinguishes operand order). neg/abs/indexing/ravel/reshape likewise. tree.dot equals the sum of leaf inner '
               'products with the FIRST argument conjugated (complex leaves as exact elements of Q(i)). Factories and *_like helpers: tree '
               'structure, shapes and dtypes compared under x64 on/off (finite matrix, no solver).')
FUNCTIONS = ['StokesPyTree._operation/_roperation and all arithmetic dunders', '__neg__/__abs__/__pos__/__getitem__/ravel/reshape/__matmul__', 'class_for/structure_for/from_stokes/from_iquv/zeros/ones/full/normal/uniform',
             'furax.tree.dot/as_promoted_dtype/as_structure/full_like/zeros_like/ones_like/normal_like/uniform_like/is_leaf']
BOUNDS = {'quick': 'Stokes I/QU/IQU/IQUV, component shapes (2,) and (1,2); operand kinds: Python float, traced 0-d array, same-shape array, broadcast array, same-kind container; 5 operators x direct/reflected',
          'thorough': 'same'}
BOUNDS['quick'] += '; x @ y with complex leaves for the four kinds (exact in Q(i))'
BOUNDS['quick'] += '; from_stokes with keywords in every order (1+2+6+24), positional, from_iquv, pytree round trip on symbolic components'
STUBS = []
ASSUMPTIONS = ['real arithmetic; division by a value that may be 0 is compared through the same guarded 1/x atom on both sides',
               'values of normal/uniform (PRNG bits) are not claimed: structure only']
RULE = 'case = (Stokes kind, operation, operand kind, direct/reflected); non-trivial = symbolic comparison with >= 2 components or non-commutative operation; distinct keys'
BUDGET = {'quick': 300, 'thorough': 900}

KINDS = ['I', 'QU', 'IQU', 'IQUV']
OPS = {'add': operator.add, 'sub': operator.sub, 'mul': operator.mul, 'truediv': operator.truediv, 'pow': operator.pow}
OPERANDS = ['pyfloat', 'scalar0d', 'array', 'bcast', 'same']


def cases(tier, seed):
    out = []
    for st in KINDS:
        for opn in OPS:
            for ok_ in OPERANDS:
                for refl in (False, True):
                    out.append(('arith', st, opn, ok_, refl))
        out.append(('pow_int', st))
        for un in ('neg', 'abs', 'pos', 'getitem', 'ravel', 'reshape', 'matmul'):
            out.append(('unary', st, un))
        out.append(('factories', st))
        out.append(('construct', st))
    out += [('dot', 'real'), ('dot', 'complex'), ('dot', 'cxr'), ('dot', 'rxc'), ('dot', 'stokes'), ('helpers',), ('reject',)]
    out += [('cmatmul', st) for st in KINDS]
    return out


def twins():
    return [('arith', 'IQU', 'sub', 'array', True), ('dot', 'complex')]


def _cls(st):
    from furax.landscapes import StokesPyTree
    return StokesPyTree.class_for(st)


def _comp(t):
    return [getattr(t, c) for c in t.stokes.lower()]


def _operand_struct(kind, st):
    if kind == 'pyfloat':
        return None
    if kind == 'scalar0d':
        return S()
    if kind == 'array':
        return S(1, 2)
    if kind == 'bcast':
        return S(2)
    return _cls(st).structure_for((1, 2), f64)


def run_case(key, twin=False):
    if key and key[0] == 'twin':
        return run_case(key[1], twin=True)
    k = key[0]
    if k == 'arith':
        return _arith(key, twin)
    if k == 'pow_int':
        return _pow_int(key)
    if k == 'unary':
        return _unary(key)
    if k == 'dot':
        return _dot(key, twin)
    if k == 'factories':
        return _factories(key)
    if k == 'construct':
        return _construct(key)
    if k == 'cmatmul':
        return _cmatmul(key, twin)
    if k == 'helpers':
        return _helpers()
    return _reject()


def _finish(ctx, dec, res, sample, key, twin=False, nontrivial=True):
    common = dict(prims=sorted(ctx.prims), **dec.stats())
    nob = common.pop('obligations')
    bad = [(n, r) for n, r in res if r.status != 'unsat']
    if not bad:
        return ok(obligations=nob, nontrivial=nontrivial, sample=sample, **common)
    if any(r.status == 'unknown' for _, r in bad):
        return inconclusive('solver unknown', obligations=nob, **common)
    n, r = bad[0]
    return violation(f'{n} fails for {key}', model=r.model, signature=f'c20-{n}:{key}', kind=n, twin=twin, obligations=nob, **common)


def _arith(key, twin):
    _, st, opn, okind, refl = key
    op = OPS[opn]
    ts = _cls(st).structure_for((1, 2), f64)
    os_ = _operand_struct(okind, st)
    const = 0.5
    ctx = E.Ctx()
    dec = Decider()

    def real(t, o=None):
        o = const if okind == 'pyfloat' else o
        if okind == 'same' and refl:
            # Python never dispatches to the reflected method for two containers of the same class: call it as a subclass operand would
            return getattr(t, f'__r{opn}__')(o)
        return op(o, t) if refl else op(t, o)

    def oracle(t, o=None):
        o = const if okind == 'pyfloat' else o
        flip = twin
        outs = []
        for i, c in enumerate(_comp(t)):
            oc = _comp(o)[i] if okind == 'same' else o
            a, b = (oc, c) if refl else (c, oc)
            if flip:
                a, b = b, a
            outs.append(op(a, b))
        return type(t)(*outs)
    args = [('t', ts, 'sym')] + ([('o', os_, 'sym')] if os_ is not None else [])
    try:
        got, gs, _ = E.run(ctx, real, args)
    except TypeError as ex:
        return violation(f'{key}: operation is not supported: {ex}', signature=f'c20-unsupported:{key}', kind='unsupported')
    want, ws, _ = E.run(ctx, oracle, args)
    if type(got) is not type(want) or not structs_equal(gs, ws):
        return violation(f'{key}: result {type(got).__name__} {describe_struct(gs)} vs component-wise {describe_struct(ws)}', signature=f'c20-struct:{key}', kind='struct')
    res = [('component-wise', dec.decide(ctx, pairs(got, want, ctx)))]
    return _finish(ctx, dec, res, dict(case=repr(key), verdict='unsat', uninterpreted=len(ctx.ufs)), key, twin, nontrivial=len(st) > 1 or opn in ('sub', 'truediv', 'pow'))


def _pow_int(key):
    _, st = key
    ts = _cls(st).structure_for((2,), f64)
    ctx = E.Ctx()
    dec = Decider()
    got, _, _ = E.run(ctx, lambda t: t ** 2, [('t', ts, 'sym')])
    want = jax.tree.map(lambda l: l * l, E.symbols('t', ts), is_leaf=E.is_sym)
    got3, _, _ = E.run(ctx, lambda t: t ** 3, [('t', ts, 'sym')])
    want3 = jax.tree.map(lambda l: l * l * l, E.symbols('t', ts), is_leaf=E.is_sym)
    res = [('square', dec.decide(ctx, pairs(got, want, ctx))), ('cube', dec.decide(ctx, pairs(got3, want3, ctx)))]
    return _finish(ctx, dec, res, dict(case=repr(key)), key)


def _unary(key):
    _, st, un = key
    ts = _cls(st).structure_for((2, 1, 2), f64)
    ctx = E.Ctx()
    dec = Decider()
    t = E.symbols('t', ts)
    idx = jnp.array([1, 0, 1])
    fns = {
        'neg': (lambda t: -t, lambda l: -l), 'pos': (lambda t: +t, lambda l: l),
        'abs': (lambda t: abs(t), None),
        'getitem': (lambda t: t[idx], lambda l: E.fix(l[np.asarray(idx)])),
        'ravel': (lambda t: t.ravel(), lambda l: E.fix(l.reshape(-1))),
        'reshape': (lambda t: t.reshape((4, 1)), lambda l: E.fix(l.reshape(4, 1))),
    }
    if un == 'matmul':
        got, _, _ = E.run(ctx, lambda a, b: a @ b, [('t', ts, 'sym'), ('u', ts, 'sym')])
        u = E.symbols('u', ts)
        want = Poly()
        for a, b in zip(E.flat_elems(t), E.flat_elems(u)):
            want = want + a * b
        res = [('A @ B = dot', dec.decide(ctx, [(E.flat_elems(got)[0], want)]))]
        return _finish(ctx, dec, res, dict(case=repr(key)), key)
    f, o = fns[un]
    got, gs, _ = E.run(ctx, f, [('t', ts, 'sym')])
    if un == 'abs':
        want, _, _ = E.run(ctx, lambda t: type(t)(*[jnp.abs(c) for c in _comp(t)]), [('t', ts, 'sym')])
    else:
        want = jax.tree.map(o, t, is_leaf=E.is_sym)
    if type(got) is not type(t):
        return violation(f'{key}: result type {type(got).__name__}', signature=f'c20-type:{key}', kind='struct')
    res = [(un, dec.decide(ctx, pairs(got, want, ctx)))]
    return _finish(ctx, dec, res, dict(case=repr(key)), key)


def _dot(key, twin):
    from furax import tree as ft
    _, mode = key
    ctx = E.Ctx()
    dec = Decider()
    if mode == 'real':
        st = {'a': S(3), 'b': [S(2, 2)]}
        got, _, _ = E.run(ctx, lambda x, y: ft.dot(x, y), [('x', st, 'sym'), ('y', st, 'sym')])
        want = Poly()
        for a, b in zip(E.flat_elems(E.symbols('x', st)), E.flat_elems(E.symbols('y', st))):
            want = want + a * b
        res = [('dot = sum of leaf inner products', dec.decide(ctx, [(E.flat_elems(got)[0], want)]))]
        return _finish(ctx, dec, res, dict(case=repr(key)), key)
    if mode == 'stokes':
        st = _cls('IQU').structure_for((2,), f64)
        got, _, _ = E.run(ctx, lambda x, y: ft.dot(x, y), [('x', st, 'sym'), ('y', st, 'sym')])
        want = Poly()
        for a, b in zip(E.flat_elems(E.symbols('x', st)), E.flat_elems(E.symbols('y', st))):
            want = want + a * b
        res = [('dot on Stokes containers', dec.decide(ctx, [(E.flat_elems(got)[0], want)]))]
        return _finish(ctx, dec, res, dict(case=repr(key)), key)
    # complex leaves: x = xr + i xi, y = yr + i yi; Hermitian product conjugates the FIRST argument
    ctx.field = Field.get(4)
    st = {'a': S(2), 'b': S(2)}
    def f(xr, xi, yr, yi):
        # modes 'cxr' / 'rxc': one operand has REAL leaves (mixed pairs: the conjugate still falls on the first argument)
        x = xr if mode == 'rxc' else jax.tree.map(lambda r, i: jax.lax.complex(r, i), xr, xi)
        y = yr if mode == 'cxr' else jax.tree.map(lambda r, i: jax.lax.complex(r, i), yr, yi)
        return ft.dot(x, y)
    got, gs, _ = E.run(ctx, f, [('xr', st, 'sym'), ('xi', st, 'sym'), ('yr', st, 'sym'), ('yi', st, 'sym')])
    F = ctx.field
    xr, xi, yr, yi = (E.flat_elems(E.symbols(n, st)) for n in ('xr', 'xi', 'yr', 'yi'))
    acc = Cyc.of(F, 0)
    for a, b, c, d in zip(xr, xi, yr, yi):
        x = Cyc.of(F, a) if mode == 'rxc' else Cyc.of(F, a) + F.I * b
        y = Cyc.of(F, c) if mode == 'cxr' else Cyc.of(F, c) + F.I * d
        acc = acc + ((y.conj() * x) if twin else (x.conj() * y))
    g = E.flat_elems(got, ctx)[0]
    res = [('Hermitian dot conjugates the first argument', dec.decide(ctx, [(g, acc)]))]
    return _finish(ctx, dec, res, dict(case=repr(key), out_dtype=str(gs.dtype)), key, twin)


def _cmatmul(key, twin=False):
    """x @ y on containers with COMPLEX leaves: the Hermitian sum with the LEFT operand conjugated, equal to furax.tree.dot(x, y)."""
    from furax import tree as ft
    _, st = key
    cls = _cls(st)
    ctx = E.Ctx()
    ctx.field = Field.get(4)
    dec = Decider()
    rs = cls.structure_for((2,), f64)
    names = ('xr', 'xi', 'yr', 'yi')

    def mk(r, i):
        return cls(*[jax.lax.complex(a, b) for a, b in zip(_comp(r), _comp(i))])
    args = [(n, rs, 'sym') for n in names]
    got, gs, _ = E.run(ctx, lambda xr, xi, yr, yi: mk(xr, xi) @ mk(yr, yi), args)
    viad, _, _ = E.run(ctx, lambda xr, xi, yr, yi: ft.dot(mk(xr, xi), mk(yr, yi)), args)
    F = ctx.field
    xr, xi, yr, yi = (E.flat_elems(E.symbols(n, rs)) for n in names)
    acc = Cyc.of(F, 0)
    for a, b, c, d in zip(xr, xi, yr, yi):
        x = Cyc.of(F, a) + F.I * b
        y = Cyc.of(F, c) + F.I * d
        acc = acc + ((y.conj() * x) if twin else (x.conj() * y))
    g = E.flat_elems(got, ctx)[0]
    res = [('x @ y conjugates the left operand', dec.decide(ctx, [(g, acc)])),
           ('x @ y == tree.dot(x, y)', dec.decide(ctx, [(g, E.flat_elems(viad, ctx)[0])]))]
    return _finish(ctx, dec, res, dict(case=repr(key), out_dtype=str(gs.dtype)), key, twin)


def _construct(key):
    """from_stokes (positional, keywords in EVERY order) and from_iquv put each symbolic component where its name says."""
    from furax.landscapes import StokesPyTree
    _, st = key
    cls = _cls(st)
    ctx = E.Ctx()
    dec = Decider()
    leaf = S(2)
    syms = {c: E.symbols(c, leaf) for c in 'IQUV'}
    res = []

    def comps(t):
        return [getattr(t, c.lower()) for c in st]
    want = [syms[c] for c in st]
    for order in itertools.permutations(st):
        got, _, _ = E.run(ctx, lambda *a, order=order: StokesPyTree.from_stokes(**dict(zip(order, a))), [(c, leaf, 'sym') for c in order])
        if type(got) is not cls:
            return violation(f'from_stokes(keywords {order}) returns {type(got).__name__}', signature=f'c20-construct-type:{st}:{order}', kind='struct')
        res.append((f'from_stokes keywords {"".join(order)}', dec.decide(ctx, [pq for g, w in zip(comps(got), want) for pq in pairs(g, w, ctx)])))
    got, _, _ = E.run(ctx, lambda *a: StokesPyTree.from_stokes(*a), [(c, leaf, 'sym') for c in st])
    res.append(('from_stokes positional', dec.decide(ctx, [pq for g, w in zip(comps(got), want) for pq in pairs(g, w, ctx)])))
    got, _, _ = E.run(ctx, lambda i, q, u, v: cls.from_iquv(i, q, u, v), [(c, leaf, 'sym') for c in 'IQUV'])
    if type(got) is not cls:
        return violation(f'{cls.__name__}.from_iquv returns {type(got).__name__}', signature=f'c20-construct-type:{st}:iquv', kind='struct')
    res.append(('from_iquv', dec.decide(ctx, [pq for g, w in zip(comps(got), want) for pq in pairs(g, w, ctx)])))
    # a container rebuilt from its own leaves through the pytree protocol keeps the component order
    got, _, _ = E.run(ctx, lambda *a: jax.tree.unflatten(jax.tree.structure(cls(*a)), jax.tree.leaves(cls(*a))), [(c, leaf, 'sym') for c in st])
    res.append(('pytree round trip', dec.decide(ctx, [pq for g, w in zip(comps(got), want) for pq in pairs(g, w, ctx)])))
    return _finish(ctx, dec, res, dict(case=repr(key), keyword_orders=len(list(itertools.permutations(st)))), key, nontrivial=len(st) > 1)


def _factories(key):
    from furax.landscapes import StokesPyTree
    _, st = key
    cls = _cls(st)
    bad = []

    def chk(cond, msg):
        if not cond:
            bad.append(msg)
    for x64 in (True, False):
        def go():
            n = len(st)
            for dt in (jnp.float32,) + ((jnp.float64,) if x64 else ()):
                s = cls.structure_for((2, 3), dt)
                chk(type(s) is cls and all(l.shape == (2, 3) and l.dtype == dt for l in _comp(s)), f'structure_for {dt.__name__} x64={x64}')
                for name, t, val in (('zeros', cls.zeros((2, 3), dt), 0), ('ones', cls.ones((2, 3), dt), 1), ('full', cls.full((2, 3), 3, dt), 3)):
                    chk(type(t) is cls and all(l.shape == (2, 3) and l.dtype == dt and bool(jnp.all(l == val)) for l in _comp(t)), f'{name} {dt.__name__} x64={x64}')
                for name, t in (('normal', cls.normal(jax.random.PRNGKey(0), (2, 3), dt)), ('uniform', cls.uniform((2, 3), jax.random.PRNGKey(0), dt, 1.0, 2.0))):
                    chk(type(t) is cls and all(l.shape == (2, 3) and l.dtype == dt for l in _comp(t)), f'{name} structure {dt.__name__} x64={x64}')
                    ls = _comp(t)
                    chk(len(ls) < 2 or not bool(jnp.all(ls[0] == ls[1])), f'{name}: components share the same random values')
                u = cls.uniform((50,), jax.random.PRNGKey(1), dt, 1.0, 2.0)
                chk(all(bool(jnp.all((l >= 1) & (l <= 2))) for l in _comp(u)), 'uniform range')
            arrs = [jnp.full((2,), i + 1.0, jnp.float32) for i in range(4)]
            t = cls.from_iquv(*arrs)
            want = {'I': [1], 'QU': [2, 3], 'IQU': [1, 2, 3], 'IQUV': [1, 2, 3, 4]}[st]
            chk(type(t) is cls and [float(l[0]) for l in _comp(t)] == want, 'from_iquv picks the wrong components')
            t = StokesPyTree.from_stokes(*[jnp.full((2,), v, jnp.float32) for v in want])
            chk(type(t) is cls and [float(l[0]) for l in _comp(t)] == want, 'from_stokes positional')
            t = StokesPyTree.from_stokes(**{c: jnp.full((2,), v, jnp.float32) for c, v in zip(st, want)})
            chk(type(t) is cls and [float(l[0]) for l in _comp(t)] == want, 'from_stokes keywords')
            if len(st) > 1:
                mixed = [jnp.ones(2, jnp.float16)] + [jnp.ones(2, jnp.float32)] * (len(st) - 1)
                t = StokesPyTree.from_stokes(*mixed)
                chk(all(l.dtype == jnp.float32 for l in _comp(t)), 'from_stokes dtype promotion')
                for wide in range(4):
                    full = [jnp.ones(2, jnp.float32 if k == wide else jnp.float16) for k in range(4)]
                    t = cls.from_iquv(*full)
                    own = [full['IQUV'.index(c)].dtype for c in st]
                    chk(all(l.dtype == jnp.result_type(*own) for l in _comp(t)),
                        f'from_iquv dtype promotion across components (wide component {"IQUV"[wide]}: got {[str(l.dtype) for l in _comp(t)]})')
            s = StokesPyTree.from_stokes(*[jax.ShapeDtypeStruct((2,), jnp.float32)] * len(st))
            chk(type(s) is cls, 'from_stokes on structures')
            chk(cls.structure_for((3,), jnp.float32).shape == (3,) and cls.zeros((3,), jnp.float32).structure == cls.structure_for((3,), jnp.float32), 'shape/structure properties')
        if x64:
            go()
        else:
            with jax.enable_x64(False):
                go()
    if bad:
        return violation(f'Stokes {st} factories: ' + '; '.join(sorted(set(bad))), signature=f'c20-factories:{st}:' + ';'.join(sorted(set(bad)))[:100], kind='factories')
    return ok(obligations=0, concrete_checks=1, nontrivial=True, sample=dict(case=repr(key)))


def _helpers():
    from furax import tree as ft
    bad = []
    for x64 in (True, False):
        def go():
            x = {'a': jnp.ones((2, 3), jnp.float16), 'b': [jnp.ones(2, jnp.float32), jnp.array(2, jnp.int32)]}
            st = ft.as_structure(x)
            if jax.tree.structure(st) != jax.tree.structure(x) or any(a.shape != b.shape or a.dtype != b.dtype for a, b in zip(jax.tree.leaves(st), jax.tree.leaves(x))):
                bad.append('as_structure')
            for name, f, val in (('zeros_like', ft.zeros_like, 0), ('ones_like', ft.ones_like, 1), ('full_like', lambda t: ft.full_like(t, 3), 3)):
                for src in (x, st):
                    y = f(src)
                    if jax.tree.structure(y) != jax.tree.structure(x) or any(a.shape != b.shape or a.dtype != b.dtype or not bool(jnp.all(a == val)) for a, b in zip(jax.tree.leaves(y), jax.tree.leaves(x))):
                        bad.append(name)
            fx = {'a': jnp.ones((2, 3), jnp.float16), 'b': [jnp.ones(2, jnp.float32)]}
            for name, f in (('normal_like', lambda t: ft.normal_like(t, jax.random.PRNGKey(0))), ('uniform_like', lambda t: ft.uniform_like(t, jax.random.PRNGKey(0), 1.0, 2.0))):
                for src in (fx, ft.as_structure(fx)):
                    y = f(src)
                    if jax.tree.structure(y) != jax.tree.structure(fx) or any(a.shape != b.shape or a.dtype != b.dtype for a, b in zip(jax.tree.leaves(y), jax.tree.leaves(fx))):
                        bad.append(name)
            p = ft.as_promoted_dtype(fx)
            if any(l.dtype != jnp.float32 for l in jax.tree.leaves(p)) or jax.tree.structure(p) != jax.tree.structure(fx):
                bad.append('as_promoted_dtype')
            ps = ft.as_promoted_dtype(ft.as_structure(fx))
            if any(l.dtype != jnp.float32 or not isinstance(l, jax.ShapeDtypeStruct) for l in jax.tree.leaves(ps)):
                bad.append('as_promoted_dtype on structures')
            if not ft.is_leaf(jnp.ones(2)) or ft.is_leaf({'a': 1}) or ft.is_leaf([jnp.ones(2)]):
                bad.append('is_leaf')
            # the common dtype is the one JAX itself would choose (weakly typed leaves and Python scalars do not widen the others)
            from furax.landscapes import StokesPyTree
            for name, tree in (('weak float + float16', {'a': jnp.asarray(2.0), 'b': jnp.ones(3, jnp.float16)}),
                               ('int8 + weak int', [jnp.ones(3, jnp.int8), jnp.asarray(2)]),
                               ('Python float + float16', (1.0, jnp.ones(2, jnp.float16))),
                               ('float16 + float32 + weak', [jnp.ones(2, jnp.float16), jnp.ones(2, jnp.float32), jnp.asarray(1.0)]),
                               ('int32 + float16', [jnp.ones(2, jnp.int32), jnp.ones(2, jnp.float16)])):
                want = jnp.result_type(*jax.tree.leaves(tree))
                try:
                    got = ft.as_promoted_dtype(tree)
                    if jax.tree.structure(got) != jax.tree.structure(tree) or any(np.dtype(l.dtype) != np.dtype(want) for l in jax.tree.leaves(got)):
                        bad.append(f'as_promoted_dtype({name}) gives {[str(l.dtype) for l in jax.tree.leaves(got)]}, JAX promotes to {want}')
                except Exception as ex:  # noqa: BLE001
                    bad.append(f'as_promoted_dtype({name}) raises {type(ex).__name__}')
            try:
                t = StokesPyTree.from_stokes(jnp.ones(2, jnp.float16), jnp.asarray(0.5))
                if any(l.dtype != jnp.float16 for l in jax.tree.leaves(t)):
                    bad.append(f'from_stokes(float16 array, weak scalar) gives {[str(l.dtype) for l in jax.tree.leaves(t)]}')
                t = StokesPyTree.from_stokes(1., 2., 3.)
                if type(t).__name__ != 'StokesIQUPyTree':
                    bad.append('from_stokes of Python scalars')
            except Exception as ex:  # noqa: BLE001
                bad.append(f'from_stokes with weak / Python scalars raises {type(ex).__name__}')
        if x64:
            go()
        else:
            with jax.enable_x64(False):
                go()
    if bad:
        return violation('tree helpers: ' + ', '.join(sorted(set(bad))), signature='c20-helpers:' + ','.join(sorted(set(bad))), kind='helpers')
    return ok(obligations=0, concrete_checks=1, nontrivial=True, sample=dict(case='tree helpers structure/dtype matrix'))


def _reject():
    from furax.landscapes import StokesPyTree
    bad = []
    for s in ('XY', 'IQ', '', 'iqu', 'UQ', 'IQUVW'):
        try:
            StokesPyTree.class_for(s)
            bad.append(f'class_for({s!r}) accepted')
        except Exception:  # noqa: BLE001  ("reject unknown Stokes kinds": any error)
            pass
    for n in (0, 5):
        try:
            StokesPyTree.from_stokes(*[jnp.ones(2)] * n)
            bad.append(f'from_stokes with {n} components accepted')
        except Exception:  # noqa: BLE001
            pass
    try:
        StokesPyTree.from_stokes(i=jnp.ones(2), u=jnp.ones(2))
        bad.append('from_stokes(i=, u=) accepted')
    except Exception:  # noqa: BLE001
        pass
    t = StokesPyTree.class_for('IQU').zeros((2,), jnp.float32)
    q = StokesPyTree.class_for('QU').zeros((2,), jnp.float32)
    for name, f in (('IQU + QU', lambda: t + q), ('IQU * str', lambda: t * 'a'), ('list - IQU', lambda: [1.0] - t), ('IQU @ QU', lambda: t @ q)):
        try:
            f()
            bad.append(f'{name} accepted')
        except Exception:  # noqa: BLE001
            pass
    if bad:
        return violation('; '.join(bad), signature='c20-reject:' + ';'.join(bad)[:150], kind='reject')
    return ok(obligations=0, concrete_checks=14, nontrivial=True, sample=dict(case='unknown kinds / foreign operands rejected'))


def replay(key, model, info):
    twin = False
    if key and key[0] == 'twin':
        key, twin = key[1], True
    key = _tuplify(key)
    kind = info.get('kind')
    if key[0] == 'construct' and kind != 'struct':
        from furax.landscapes import StokesPyTree
        st = key[1]
        cls = _cls(st)
        vals = {c: model_tree(model, c, S(2)) for c in 'IQUV'}
        want = cls(*[vals[c] for c in st])
        for order in itertools.permutations(st):
            close, msg = trees_close(StokesPyTree.from_stokes(**{c: vals[c] for c in order}), want)
            if not close:
                return True, f'from_stokes(keywords in order {"".join(order)}) misplaces components: {msg}'
        for name, got in (('from_stokes positional', StokesPyTree.from_stokes(*[vals[c] for c in st])), ('from_iquv', cls.from_iquv(*[vals[c] for c in 'IQUV'])),
                          ('pytree round trip', jax.tree.unflatten(jax.tree.structure(want), jax.tree.leaves(want)))):
            close, msg = trees_close(got, want)
            if not close:
                return True, f'{name} misplaces components: {msg}'
        return False, 'all constructions agree on the model'
    if key[0] in ('factories', 'helpers', 'reject') or kind in ('struct', 'unsupported'):
        r = run_case(key)
        return r['status'] == 'violation', r.get('what', 'ok')
    if key[0] == 'arith':
        _, st, opn, okind, refl = key
        op = OPS[opn]
        ts = _cls(st).structure_for((1, 2), f64)
        os_ = _operand_struct(okind, st)
        t = model_tree(model, 't', ts)
        o = 0.5 if os_ is None else model_tree(model, 'o', os_)
        got = op(o, t) if refl else op(t, o)
        outs = []
        for i, c in enumerate(_comp(t)):
            oc = _comp(o)[i] if okind == 'same' else o
            a, b = (oc, c) if refl else (c, oc)
            if twin:
                a, b = b, a
            outs.append(op(a, b))
        close, msg = trees_close(got, type(t)(*outs))
        return (not close), f'{key}: {msg}'
    if key[0] == 'cmatmul':
        from furax import tree as ft
        cls = _cls(key[1])
        rs = cls.structure_for((2,), f64)
        xr, xi, yr, yi = (model_tree(model, n, rs) for n in ('xr', 'xi', 'yr', 'yi'))
        x = cls(*[a + 1j * b for a, b in zip(_comp(xr), _comp(xi))])
        y = cls(*[a + 1j * b for a, b in zip(_comp(yr), _comp(yi))])
        got = complex(x @ y)
        want = sum(complex(jnp.sum((jnp.conj(b) * a) if twin else (jnp.conj(a) * b))) for a, b in zip(_comp(x), _comp(y)))
        viad = complex(ft.dot(x, y))
        bad = abs(got - want) > 1e-9 * max(1, abs(want)) or (not twin and abs(got - viad) > 1e-9 * max(1, abs(viad)))
        return bad, f'x @ y = {got}, sum conj(x_k) y_k = {want}, tree.dot(x, y) = {viad}'
    if key[0] == 'dot' and key[1] in ('complex', 'cxr', 'rxc'):
        from furax import tree as ft
        st = {'a': S(2), 'b': S(2)}
        xr, xi, yr, yi = (model_tree(model, n, st) for n in ('xr', 'xi', 'yr', 'yi'))
        x = xr if key[1] == 'rxc' else jax.tree.map(lambda r, i: r + 1j * i, xr, xi)
        y = yr if key[1] == 'cxr' else jax.tree.map(lambda r, i: r + 1j * i, yr, yi)
        got = complex(ft.dot(x, y))
        want = sum(complex(jnp.sum((jnp.conj(b) * a) if twin else (jnp.conj(a) * b))) for a, b in zip(jax.tree.leaves(x), jax.tree.leaves(y)))
        return abs(got - want) > 1e-9 * max(1, abs(want)), f'dot={got} expected {want}'
    r = run_case(key)
    return r['status'] == 'violation', r.get('what', 'ok')
