"""C01 - reduce() never changes the denoted linear map.

For every program p of a bounded typed grammar over the real operator classes, the real code is
traced twice (p.mv and p.reduce().mv, operator built inside the trace from symbolic parameters) and
z3 decides   exists params, x :  p.reduce().mv(x) != p.mv(x).   unsat = equal for ALL parameter
values and ALL inputs at these shapes.
"""
from __future__ import annotations

import itertools
import random

import jax
import numpy as np

from .. import interp as E
from ..catalogue import FAM, Builder, has_tag, leaf_names, show
from ..common import Decider, model_tree, pairs, structs_equal, trees_close, describe_struct
from ..harness import inconclusive, ok, skipped, violation
from ..poly import Poly
from ..programs import build_concrete, optree, params_from_model, real_solver, sym_eval

ID = 'C01'
LEVEL = 'translation_validation'
TECHNIQUE = 'jaxpr-level symbolic execution of reduce() vs. the unreduced operator + z3 (QF_NRA), cvc5 cross-check'
EXPLANATION = ('Each program is an operator expression built from the real furax classes inside jax.make_jaxpr; '
               'the jaxprs of p.mv and p.reduce().mv are interpreted over exact polynomials in the entries of x and '
               'of every float parameter, and z3 decides whether the two results can differ. A verdict covers all '
               'real inputs and parameter values of that program at the stated shapes.')
FUNCTIONS = ['CompositionOperator.reduce', 'AlgebraicReductionRule.apply', 'IdentityRule.apply', 'HomothetyRule.apply',
             'AbstractBinaryRule.check', 'InverseBinaryRule', 'AdditionOperator.reduce', 'AbstractBlockOperator.reduce',
             'BlockDiagonalOperator.reduce', 'AbstractBlockDiagonalRule.apply (4 subclasses)', 'IndexOperator.reduce',
             'IndexTransposeRule', 'TransposeIndexRule', 'AbstractRavelOrReshapeOperator.reduce', 'ReshapeInverseRule',
             'MoveAxisInverseRule', 'PackUnpackRule', 'QURotationRule', 'QURotationHWPRule', 'LinearPolarizerHWPRule',
             'InverseOperator.__init__ (operand reduced)', 'every mv reached by the programs']
BOUNDS = {
    'quick': 'families vec(3,), mat(2,3), Stokes IQU(2,), pytree {a:(3,),b:[(2,3),(3,)]}; all products of two '
             'level-1 terms (leaf, leaf.T, leaf.I), all sums/differences of two leaves, seeded triples, blocks of '
             'arity 1-3 over list/tuple/dict/nested containers, block@block, rule patterns at every position of '
             'chains of length <= 5 with inert neighbours, under .T, re-reduced, inside sums and blocks; '
             'scalar multiples; 60 random well-typed trees of nesting depth <= 3 per family (compositions, sums, blocks, transposes, '
             'inverses, scalar multiples, re-reduction in any nesting); 12 expressions with symbolic COMPLEX scalars on real-valued operators (scalars merged and moved by the rules, exact in Q(i)). Anything larger is outside the claim.',
    'thorough': 'same grammar, all triples, depth 3, chains <= 6, more block combinations (capped by wall time).',
}
STUBS = ['lineax.linear_solve -> contract stub A.mv(z) == b (functional); lazy inverses only of operators whose '
         'invertibility is visible to the solver (concrete SPD blocks, diagonals assumed > 0, closed forms)',
         'jax.debug.callback of the solver callback dropped']
ASSUMPTIONS = ['real arithmetic (rounding/overflow outside the claim)', 'scalar factors that are inverted are != 0',
               'diagonals under a lazy (iterative) inverse are > 0',
               'the iterative solver returns a solution of A z = b (convergence not decided)']
RULE = ('program = expression tree over catalogue leaves; non-trivial = reduce() changed the operator tree '
        '(class-name tree differs) and the program has >= 1 symbolic atom; distinct = distinct expression key')
BUDGET = {'quick': 420, 'thorough': 2400}
CASE_TIMEOUT = {'quick': 60, 'thorough': 300}

INV_OK = {
    'vec': ['I3', 'k', 'D', 'Spd', 'Spd2', 'Nsym'],
    'mat': ['I', 'k', 'D0', 'D1', 'D2', 'Mv', 'MvI', 'Mn'],
    'stokes': ['R', 'Rs', 'H', 'k', 'Dq', 'Id'],
    'tree': ['I', 'k', 'D'],
}
DIAG_LEAVES = {'D', 'Dp', 'D0', 'D1', 'D2', 'Dq'}
NEUTRAL = {'vec': ['A', 'W', 'V'], 'mat': ['E', 'E2'], 'stokes': ['Dq', 'Ix'], 'tree': ['Et', 'E']}


def L(name, k=0):
    return ('leaf', name, k)


def patterns(fam):
    T = lambda e: ('T', e)  # noqa: E731
    I = lambda e: ('I', e)  # noqa: E731
    if fam == 'vec':
        return [
            (L('I3'),), (L('k'), L('k2')), (L('k'), L('A'), L('k2')), (L('I3'), L('k')),
            (I(L('Spd')), L('Spd')), (L('Spd'), I(L('Spd'))), (I(L('D')), L('D')), (L('D'), I(L('D'))),
            (('lazyI', L('Dp')), L('Dp')), (L('Dp'), ('lazyI', L('Dp'))),
            (I(('@', L('Spd'), L('Spd2'))), L('Spd')), (I(('+', L('Spd'), L('Spd2'))), L('A')),
            (L('U'), T(L('U'))), (T(L('U')), L('U')), (L('P'), T(L('P'))), (T(L('P')), L('P')), (T(L('Pa')), L('Pa')), (L('Pa'), T(L('Pa'))),
            (L('Mk'), T(L('Mk'))), (T(L('Mk')), L('Mk')), (L('Sl'), T(L('Sl'))), (T(L('Sl')), L('Sl')),
            (T(L('Rs')), L('Rs')), (L('Rs'), T(L('Rs'))), (L('Rs0'),), (L('Rs0'), L('k')),
            (L('k'), T(L('P')), L('P'), L('k2')), (T(L('P')), L('P'), T(L('P')), L('P')),
            (L('Tz'), L('D')), (L('Bd'), L('k')), (L('k'), T(L('Bd'))),
        ] + [p_ for c in ('list', 'dict', 'nest', 'tuple') for p_ in (
            (('row', c, (L('A'), L('D'))), ('diag', c, (L('D', 1), L('k')))),
            (('diag', c, (L('D'), L('k'))), ('col', c, (L('A'), L('D', 1)))),
            (('diag', c, (L('D'), L('W'))), ('diag', c, (L('A'), L('D', 1)))),
            (('row', c, (L('A'), L('D'))), ('col', c, (L('B'), L('D', 1)))),
            (('row', c, (L('A'), L('D'))), ('diag', c, (L('D', 1), L('k'))), ('col', c, (L('B'), L('A', 1)))),
        )] + [
            # adjacent block operators whose structures match but whose CONTAINERS are laid out differently (a block that is itself
            # a block operator over a pytree against a nested container): the block-wise rules cannot pair the blocks
            (('row', 'list', (('row', 'list', (L('A'), L('D'))), L('B'))), ('diag', 'lnest', (L('A', 1), L('D', 1), L('B', 1)))),
            (('diag', 'lnest', (L('A'), L('D'), L('B'))), ('col', 'list', (('col', 'list', (L('A', 1), L('D', 1))), L('B', 1)))),
            (('diag', 'list', (('diag', 'list', (L('A'), L('D'))), L('B'))), ('diag', 'lnest', (L('A', 1), L('D', 1), L('B', 1)))),
            (('diag', 'lnest', (L('A'), L('D'), L('B'))), ('diag', 'list', (('diag', 'list', (L('A', 1), L('D', 1))), L('B', 1)))),
            (('row', 'list', (('row', 'list', (L('A'), L('D'))), L('B'))), ('col', 'lnest', (L('A', 1), L('D', 1), L('B', 1)))),
        ]
    if fam == 'mat':
        return [
            (L('I'),), (L('k'), L('I'), L('D0')),
            (L('MvI'), L('Mv')), (L('Mv'), L('MvI')), (T(L('Mv')), L('Mv')), (L('Mv'), T(L('Mv'))),
            (I(L('Mv')), L('Mv')), (L('Mn'), T(L('Mn'))), (L('Mn'), L('Mn', 1)), (L('M3c'), L('M3')), (T(L('M3')), L('M3')), (L('M3b'), L('M3')), (L('M3d'), L('M3b')), (T(L('M3b')), L('M3b')),
            (T(L('Rv')), L('Rv')), (L('Rv'), T(L('Rv'))), (T(L('Rs')), L('Rs')), (L('Rs'), T(L('Rs'))),
            (L('Rid'),), (L('Pn'),), (L('Rid'), L('Pn'), L('I')),
            (T(L('Pe')), L('Pe')), (L('Pe'), T(L('Pe'))), (T(L('P0')), L('P0')), (L('P0'), T(L('P0'))),
            (T(L('P2')), L('P2')), (L('P2'), T(L('P2'))), (T(L('Pes')), L('Pes')), (L('Pes'), T(L('Pes'))), (T(L('Pc')), L('Pc')),
            (I(L('D1')), L('D1')), (L('D2'), I(L('D2'))), (L('D0'), L('D1')), (L('Tz'), L('To')),
            (L('k'), T(L('Pe')), L('Pe')), (T(L('Rv')), L('Rv'), L('k'), T(L('Mv')), L('Mv')),
        ]
    if fam == 'stokes':
        R, R2, H, Pol = L('R'), L('R2'), L('H'), L('Pol')
        return [
            (R, R2), (R, T(R2)), (T(R), R2), (T(R), T(R2)), (R, T(R)), (T(R), R), (R, R), (I(R), R),
            (R, H), (T(R), H), (Pol, H), (Pol, R, H), (Pol, H, R), (Pol, H, T(R), H, R),
            (T(R), H, R), (R, R2, L('Rs')), (R, H, R2, H), (H, H), (H, R, H),
            (L('Pk'), T(L('Pk'))), (T(L('Pk')), L('Pk')), (L('Id'), R), (L('k'), R, L('k', 1), R2),
            (T(L('Ix')), L('Ix')), (L('Ix'), T(L('Ix'))), (I(L('Dq')), L('Dq')), (L('Pol'), L('k'), H),
            (I(H), H), (H, I(H)),
        ]
    if fam == 'tree':
        return [
            (L('I'),), (L('k'), L('I'), L('k', 1)), (T(L('Rv')), L('Rv')), (L('Rv'), T(L('Rv'))), (L('Rl'),),
            (L('Rl'), L('k')), (L('Ix'), T(L('Ix'))), (T(L('Ix')), L('Ix')), (T(L('Ir')), L('Ir')),
            (L('Ir'), T(L('Ir'))), (I(L('D')), L('D')), (L('D'), I(L('D'))), (L('k'), L('D'), L('k', 1)),
        ]
    raise ValueError(fam)


def gen_programs(fam, tier, seed):
    rnd = random.Random(f'{seed}-{fam}')
    names = list(FAM[fam])
    base = [L(n) for n in names]
    lvl1 = base + [('T', b) for b in base] + [('I', L(n)) for n in INV_OK[fam]]
    progs = []
    # (a) all products of two level-1 terms, sums and differences of two leaves
    prs = [('@', a, b) for a, b in itertools.product(lvl1, lvl1)]
    sms = [(o, a, b) for o in '+-' for a, b in itertools.product(base, base)]
    if tier != 'thorough':
        rnd.shuffle(prs)
        rnd.shuffle(sms)
        prs, sms = prs[:200], sms[:40]
    progs += prs + sms
    # (b) triples
    trip = [('@', a, b, c) for a, b, c in itertools.product(lvl1, repeat=3)]
    rnd.shuffle(trip)
    progs += trip if tier == 'thorough' else trip[:100]
    # (c) rule patterns in context
    pats = patterns(fam)
    neutral = [L(n) for n in NEUTRAL[fam]]
    ctxs = [((), ())] + [((n,), ()) for n in neutral] + [((), (n,)) for n in neutral] + \
           [((a,), (b,)) for a in neutral for b in neutral]
    chain = []
    for p in pats:
        for l, r in ctxs:
            chain.append(('comp', l + p + r))
    if tier == 'thorough':
        for p, q in itertools.product(pats, repeat=2):
            chain.append(('comp', p + q))
            chain.append(('comp', p + (neutral[0],) + q))
    else:
        pq = [('comp', p + q) for p, q in itertools.product(pats, repeat=2)]
        rnd.shuffle(pq)
        chain += pq[:40]
    progs += chain
    # the same patterns written with '@' (construction-time shortcuts take part)
    progs += [('@',) + p for p in pats if len(p) > 1]
    # wrappers: transpose, re-reduction, sums, scalar multiples, blocks
    wrap_src = [('comp', p) for p in pats if len(p) > 1]
    rnd.shuffle(wrap_src)
    nw = len(wrap_src) if tier == 'thorough' else 8
    for e in wrap_src[:nw]:
        progs.append(('T', e))
        progs.append(('red', e))
        progs.append(('red', ('T', e)))
        progs.append(('+', e, e))
        progs.append(('kmul', e, 0))
        progs.append(('neg', ('divk', e, 0)))
        progs.append(('comp', (('red', e), e)))
        for kind, cont in (('diag', 'list'), ('col', 'dict'), ('row', 'nest'), ('diag', 'tuple')):
            progs.append((kind, cont, (e, e)))
            progs.append((kind, cont, (e,)))
    # (d) block operators and their products
    small = lvl1[: 2 * len(base)]
    blk = [(t, c, (a, b)) for t in ('col', 'row', 'diag') for c in ('list', 'dict', 'nest', 'tuple')
           for a, b in itertools.product(small, repeat=2)]
    rnd.shuffle(blk)
    nb = 400 if tier == 'thorough' else 40
    progs += blk[:nb]
    blk3 = [(t, c, (a, b, d)) for t in ('col', 'row', 'diag') for c in ('list', 'nest')
            for a, b, d in itertools.product(base[:6], repeat=3)]
    rnd.shuffle(blk3)
    progs += blk3[: (100 if tier == 'thorough' else 12)]
    bb = [('@', x, y) for x in blk[:60] for y in blk[:60]]
    rnd.shuffle(bb)
    progs += bb[: (600 if tier == 'thorough' else 80)]
    bbb = [('comp', (x, y, z)) for x in blk[:25] for y in blk[:25] for z in blk[:25]]
    rnd.shuffle(bbb)
    progs += bbb[: (300 if tier == 'thorough' else 40)]
    # dedupe, keep order
    seen, out = set(), []
    for e in progs:
        if e not in seen:
            seen.add(e)
            out.append(e)
    return out


def gen_typed(fam, n, seed, maxdepth=3):
    """Random well-typed expression trees of nesting depth <= maxdepth (compositions, sums, blocks, transposes, inverses,
    scalar multiples in any nesting), generated constructively from the leaves' declared structures."""
    rnd = random.Random(f'typed-{seed}-{fam}')
    sig = {}
    for name in FAM[fam]:
        try:
            op = build_concrete(fam, L(name))
            sig[name] = (str(op.in_structure()), str(op.out_structure()))
        except Exception:  # noqa: BLE001
            pass
    names = sorted(sig)
    structs = sorted({s for v in sig.values() for s in v})
    counter = [0]

    def leaf(i, o):
        cands = [n_ for n_ in names if sig[n_] == (i, o)]
        tcands = [n_ for n_ in names if sig[n_] == (o, i)]
        choices = [('leaf', c) for c in cands] + [('T', c) for c in tcands]
        if not choices:
            return None
        k, c = rnd.choice(choices)
        counter[0] += 1
        e = ('leaf', c, counter[0] % 3)
        return e if k == 'leaf' else ('T', e)

    def gen(i, o, d):
        if d == 0 or rnd.random() < 0.25:
            return leaf(i, o)
        kind = rnd.choice(['comp', 'comp', 'sum', 'kmul', 'neg', 'T', 'red', 'inv'])
        if kind == 'comp':
            m = rnd.choice(structs)
            a, b = gen(m, o, d - 1), gen(i, m, d - 1)
            return ('@', a, b) if a and b else leaf(i, o)
        if kind == 'sum':
            a, b = gen(i, o, d - 1), gen(i, o, d - 1)
            return (rnd.choice('+-'), a, b) if a and b else leaf(i, o)
        if kind == 'T':
            a = gen(o, i, d - 1)
            return ('T', a) if a else leaf(i, o)
        if kind == 'inv' and i == o:
            cands = [n_ for n_ in INV_OK[fam] if n_ in sig and sig[n_] == (i, o)]
            if cands:
                return ('I', L(rnd.choice(cands)))
            return leaf(i, o)
        a = gen(i, o, d - 1)
        if not a:
            return None
        return {'kmul': ('kmul', a, 0), 'neg': ('neg', a), 'red': ('red', a)}.get(kind, a)

    out = []
    tries = 0
    while len(out) < n and tries < 40 * n:
        tries += 1
        mode = rnd.choice(['plain', 'plain', 'diag', 'row', 'col'])
        i, o = rnd.choice(structs), rnd.choice(structs)
        if mode == 'plain':
            e = gen(i, o, maxdepth)
        else:
            ar = rnd.choice([1, 2, 3])
            cont = rnd.choice(['list', 'tuple', 'dict', 'nest'])
            if mode == 'diag':
                bl = [gen(rnd.choice(structs), rnd.choice(structs), maxdepth - 1) for _ in range(ar)]
            elif mode == 'row':
                bl = [gen(rnd.choice(structs), o, maxdepth - 1) for _ in range(ar)]
            else:
                bl = [gen(i, rnd.choice(structs), maxdepth - 1) for _ in range(ar)]
            e = (mode, cont, tuple(bl)) if all(bl) else None
            if e and rnd.random() < 0.5:
                e = ('red', e) if rnd.random() < 0.5 else ('T', e)
        if e and e[0] != 'leaf' and e not in out:
            out.append(e)
    return out


def cases(tier, seed):
    out = []
    for fam in ('vec', 'mat', 'stokes', 'tree'):
        out += [(fam, e) for e in gen_programs(fam, tier, seed)]
        out += [(fam, e) for e in gen_typed(fam, 60 if tier == 'quick' else 600, seed)]
    from ..catalogue import other_stokes_programs
    out += [(fam, e) for fam in ('iquv', 'qu') for e in other_stokes_programs(fam)]
    from .. import cplx
    out += [('cmixed', n) for n in cplx.mixed_cases()]
    return out


def twins():
    return [('stokes', ('comp', (L('R'), L('R2')))), ('vec', ('comp', (L('k'), L('A'), L('k2'))))]


def extra_coverage(results):
    return dict(translator_validations=sum(r.get('translator_validated', 0) for r in results))


def _pinv_param_atoms(fam, e):
    """Atoms of diagonal leaves that occur under an inverse (pseudo-inverse collapse finding)."""
    bld = Builder(fam)
    inv_diag = set()

    def walk(x, under):
        tag = x[0]
        if tag == 'leaf':
            if under and x[1] in DIAG_LEAVES:
                inv_diag.add(f'{x[1]}#{x[2]}')
        elif tag in ('I', 'lazyI'):
            walk(x[1], True)
        elif tag in ('T', 'neg', 'pos', 'red', 'mulk', 'kmul', 'divk', 'cmul', 'rcmul', 'cdiv'):
            walk(x[1], under)
        elif tag in ('@', '+', '-'):
            for c in x[1:]:
                walk(c, under)
        elif tag in ('comp', 'sum'):
            for c in x[1]:
                walk(c, under)
        else:
            for c in x[2]:
                walk(c, under)
    walk(e, False)
    atoms = []
    for i, (_, shape, _, label) in enumerate(bld.layout(e)):
        if label in inv_diag:
            atoms += list(E.sym_array(f'p{i}', shape).reshape(-1))
    return atoms


def run_case(key, twin=False):
    if key and key[0] == 'twin':
        return run_case(key[1], twin=True)
    fam, e = key
    if fam == 'cmixed':
        from .. import cplx
        return cplx.check_mixed_reduce(e, twin)
    bld = Builder(fam)
    # 1. concrete typing with furax's own structure checks
    try:
        op0 = build_concrete(fam, e)
        xin, yout = op0.in_structure(), op0.out_structure()
    except ValueError as ex:
        return skipped(f'ill-typed for furax: {str(ex)[:80]}')
    except Exception as ex:  # noqa: BLE001
        return skipped(f'construction raises {type(ex).__name__}: {str(ex)[:120]}')
    # 2. reduce() terminates without raising and keeps the structures (concrete outcome)
    try:
        red0 = op0.reduce()
    except Exception as ex:  # noqa: BLE001
        return violation(f'reduce() raises {type(ex).__name__}: {str(ex)[:200]} on {show(e)}',
                         signature=f'reduce-raises:{type(ex).__name__}:{fam}:{show(e)}', kind='raises')
    if not structs_equal(red0.in_structure(), xin) or not structs_equal(red0.out_structure(), yout):
        return violation(f'reduce() changes the structures of {show(e)}: in {describe_struct(red0.in_structure())} '
                         f'out {describe_struct(red0.out_structure())} vs in {describe_struct(xin)} out {describe_struct(yout)}',
                         signature=f'reduce-structure:{fam}:{show(e)}', kind='structure')
    changed = optree(op0) != optree(red0)
    # 3. symbolic equivalence for all parameter values and inputs
    ctx = E.Ctx()
    try:
        Lv, lshape = sym_eval(ctx, fam, e, lambda op, x: op.mv(x), xin)
    except NotImplementedError as ex:
        if 'fxsmt_' in str(ex):
            return skipped('transpose of an iterative inverse (contract stub has no transpose rule): outside the claim')
        raise
    if not structs_equal(lshape, yout):
        return skipped('mv() does not honour out_structure() (decided by C05/C10, not here)')
    if twin:
        # must-fail twin: perturb the reduced side (negate the first output leaf)
        Rv, rshape = sym_eval(ctx, fam, e, lambda op, x: jax.tree.map(lambda l: l * 1.5, op.reduce().mv(x)), xin)
    else:
        Rv, rshape = sym_eval(ctx, fam, e, lambda op, x: op.reduce().mv(x), xin)
    if not structs_equal(lshape, rshape):
        return violation(f'reduce() changes the output structure under trace for {show(e)}',
                         signature=f'reduce-structure:{fam}:{show(e)}', kind='structure')
    dec = Decider()
    assume = bld.assumptions(e)
    res = dec.decide(ctx, pairs(Lv, Rv, ctx), assumptions=assume)
    natoms = len(bld.layout(e))
    sample = dict(program=show(e), family=fam, reduced_to=repr(optree(red0))[:200], verdict=res.status,
                  smt_digest=res.digest, rewritten=changed)
    common = dict(prims=sorted(ctx.prims), **dec.stats())
    if res.status == 'unsat':
        # translator validation on a deterministic 1/6 of the programs: interpreter vs. the real library at random rationals
        import zlib
        validated = None
        if zlib.crc32(repr(key).encode()) % 6 == 0 and not twin:
            from ..programs import numeric_validate
            validated = numeric_validate(ctx, fam, e, lambda op, x: op.mv(x), Lv, xin)
            if validated is not None and not validated[0]:
                raise RuntimeError(f'translator validation failed for {show(e)}: {validated[1]}')
        r = ok(nontrivial=bool(changed), sample=sample, translator_validated=int(bool(validated)), **common)
        return r
    if res.status == 'unknown':
        return inconclusive(f'solver: {res.reason}', **common)
    # sat: classify the pseudo-inverse collapse finding (solver-checked side condition)
    sig = f'reduce-differs:{fam}:{show(e)}'
    patoms = _pinv_param_atoms(fam, e)
    if patoms and not twin:
        res2 = dec.decide(ctx, pairs(Lv, Rv, ctx), assumptions=assume + [(a, 'ne', Poly()) for a in patoms])
        if res2.status == 'unsat':
            sig = 'pinv-collapse'
        elif res2.status == 'unknown':
            # the program contains the listed pattern but the solver could not decide whether a zero diagonal entry is the
            # only cause: neither a new violation nor the known finding can be claimed
            return inconclusive(f'program contains a diagonal pseudo-inverse next to its operand; side-condition query: {res2.reason}',
                                prims=sorted(ctx.prims), **dec.stats())
    common = dict(prims=sorted(ctx.prims), **dec.stats())
    common.pop('obligations')
    return violation(f'reduce() changes the map of {show(e)} [{fam}]', model=res.model, signature=sig,
                     kind='differs', twin=twin, **common)


def replay(key, model, info):
    twin = False
    if key and key[0] == 'twin':
        key, twin = key[1], True
    fam, e = key
    if fam == 'cmixed':
        from .. import cplx
        if info.get('kind') == 'struct':
            r = cplx.check_mixed_reduce(e)
            return r['status'] == 'violation', r.get('what', 'ok')
        return cplx.replay_mixed(e, model, twin)
    e = _tuplify(e)
    kind = info.get('kind', 'differs')
    with real_solver():
        if kind == 'raises':
            op0 = build_concrete(fam, e)
            try:
                op0.reduce()
            except Exception as ex:  # noqa: BLE001
                return True, f'reduce() raises {type(ex).__name__}: {ex}'
            return False, 'reduce() did not raise'
        if kind == 'structure':
            op0 = build_concrete(fam, e)
            red0 = op0.reduce()
            same = structs_equal(red0.in_structure(), op0.in_structure()) and structs_equal(red0.out_structure(), op0.out_structure())
            return (not same), 'structures differ' if not same else 'structures equal'
        params = params_from_model(fam, e, model)
        op = Builder(fam).build(e, params)
        x = model_tree(model, 'x', op.in_structure())
        y1 = op.mv(x)
        y2 = op.reduce().mv(x)
        if twin:
            y2 = jax.tree.map(lambda l: l * 1.5, y2)
        lazy = has_tag(e, ('I', 'lazyI'))
        close, msg = trees_close(y1, y2, rtol=1e-4 if lazy else 1e-7)
        return (not close), f'op.mv(x) vs op.reduce().mv(x): {msg}; program {show(e)}'


def _tuplify(e):
    if isinstance(e, list):
        return tuple(_tuplify(c) for c in e)
    if isinstance(e, tuple):
        return tuple(_tuplify(c) for c in e)
    return e
