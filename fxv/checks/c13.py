"""C13 - move-axis / ravel / reshape are exact relabellings (NumPy semantics), transpose = inverse."""
from __future__ import annotations

import itertools
import random

import jax
import jax.numpy as jnp
import numpy as np

from .. import interp as E
from ..common import Decider, S, describe_struct, model_tree, pairs, structs_equal, trees_close
from ..harness import inconclusive, ok, skipped, violation

ID = 'C13'
LEVEL = 'other'
TECHNIQUE = 'jaxpr-level symbolic execution on arrays of distinct atoms + z3 against numpy.moveaxis / flatten / reshape; legality compared one-sidedly with NumPy'
EXPLANATION = ('x is an array of distinct atoms, so equality of results is equality of relabellings. For every legal argument of a '
               'bounded family the operator, its transpose (T(mv x) = x, mv(T y) = y), reduce() (Identity only if all leaf shapes '
               'are unchanged, and then the identity map), the inverse-pair rules (an operator with its own transpose, and with the transpose of ANOTHER reshape of the same input, which must not cancel) are traced and decided; arguments NumPy '
               'rejects must be rejected at construction.')
FUNCTIONS = ['MoveAxisOperator.__init__/mv/transpose/inverse', 'MoveAxisInverseRule', 'RavelOperator.__init__/mv', 'ReshapeOperator.__init__/_check_shape/_normalize_shape/mv',
             'ReshapeTransposeOperator.mv', 'AbstractRavelOrReshapeOperator.transpose/reduce/as_matrix', 'ReshapeInverseRule']
BOUNDS = {'quick': 'leaf shapes of rank 1-3 with dims in {1,2,3,4}; all scalar source/destination pairs, seeded axis tuples; all (first,last) in range; '
                   'reshape targets of length <= 3 over {-1,1,2,3,4,6,12} (seeded 150) + illegal targets; 60 seeded pytrees of 2-3 leaves over 6 shapes (the unfit leaf at any position) x 6 targets; ravel/move on 5 mixed-rank pytrees',
          'thorough': 'rank <= 4, all axis tuples of length <= 2, all reshape targets'}
STUBS = []
ASSUMPTIONS = ['real arithmetic (pure data movement)', 'legality oracle is one-sided: furax may be stricter than NumPy (e.g. refuses a -2 size)']
RULE = 'case = (operator, leaf shapes, arguments); non-trivial = legal and not the identity relabelling; distinct keys'
BUDGET = {'quick': 400, 'thorough': 2400}


def _ins(shapes):
    if len(shapes) == 1:
        return S(*shapes[0])
    return {f'l{i}': S(*s) for i, s in enumerate(shapes)}


def cases(tier, seed):
    rnd = random.Random(f'c13-{seed}')
    out = []
    shapes = [(3,), (2, 3), (2, 1, 3), (2, 3, 4)] + ([(2, 3, 1, 2)] if tier == 'thorough' else [])
    for sh in shapes:
        r = len(sh)
        for s, d in itertools.product(range(-r, r), repeat=2):
            out.append(('move', (sh,), s, d))
        tups = [(s, d) for s in itertools.permutations(range(-r, r), 2) for d in itertools.permutations(range(-r, r), 2)
                if len({a % r for a in s}) == 2 and len({a % r for a in d}) == 2] if r >= 2 else []
        rnd.shuffle(tups)
        for s, d in tups[: (len(tups) if tier == 'thorough' else 25)]:
            out.append(('move', (sh,), s, d))
        if r == 3:
            t3 = [(s, d) for s in itertools.permutations(range(r), 3) for d in itertools.permutations(range(-r, 0), 3)]
            rnd.shuffle(t3)
            for s, d in t3[:10]:
                out.append(('move', (sh,), s, d))
            for s, d in t3[10:14]:
                out.append(('move', (sh,), s, d, 'list'))
        for f, l in itertools.product(range(-r, r), repeat=2):
            out.append(('ravel', (sh,), f, l))
    for tr in [((2, 3), (3, 2, 2)), ((3,), (2, 3)), ((2, 2), (2, 2, 3))]:
        out.append(('move', tr, 0, -1))
        out.append(('move', tr, -1, 0))
        rr = min(len(s) for s in tr)
        for f, l in itertools.product(range(-rr, rr), repeat=2):
            out.append(('ravel', tr, f, l))
        out.append(('ravel', tr, 0, -1))
    vals = [-1, 1, 2, 3, 4, 6, 12]
    targets = [t for n in (1, 2, 3) for t in itertools.product(vals, repeat=n)]
    for sh in [(6,), (2, 3), (2, 3, 2), (1, 4)]:
        size = int(np.prod(sh))
        good, other = [], []
        for t in targets:
            try:
                np.empty(sh).reshape(t)
                good.append(t)
            except ValueError:
                other.append(t)
        rnd.shuffle(other)
        if tier == 'quick':
            rnd.shuffle(good)
            good = good[:40]
            other = other[:25]
        for t in good + other:
            out.append(('reshape', (sh,), t))
        for t in [(0, -1), (-2, 3), (-1, -1), (), (size,), (-1,), (size, 1), (1, -1, 1), (-2, -(size // 2)), (-2, -1, size // 2)]:  # negative sizes whose product fits
            out.append(('reshape', (sh,), t))
    for tr, t in [(((2, 3), (6,)), (-1,)), (((2, 3), (3, 2)), (6,)), (((2, 3), (3, 4)), (3, -1)), (((2, 3), (3, 4)), (6,)), (((2, 2), (4,)), (2, 2))]:
        out.append(('reshape', tr, t))
    # pytrees in which the leaf that cannot take the arguments sits at ANY position (first, middle, last)
    pool = [(6,), (2, 3), (3, 4), (4,), (2, 2), (1, 6)]
    multi = []
    for n in (2, 3):
        for tr in itertools.product(pool, repeat=n):
            if len({int(np.prod(s)) for s in tr}) >= 2 or rnd.random() < 0.2:
                multi.append(tr)
    rnd.shuffle(multi)
    for tr in multi[: (len(multi) if tier == 'thorough' else 60)]:
        for t in [(6,), (-1,), (3, 2), (2, -1), (4,), (3, -1)]:
            out.append(('reshape', tr, t))
    for tr in [((2, 3), (3,)), ((3,), (2, 3)), ((2, 3), (3,), (2, 2)), ((2, 3, 4), (2,), (3, 2)), ((2, 3), (2, 3, 4), (4,))]:
        for f, l in [(0, 1), (-2, -1), (1, 2), (0, -1), (1, 1)]:
            out.append(('ravel', tr, f, l))
        for s_, d_ in [(0, 1), (1, 0), (-2, -1), (2, 0), (0, -1)]:
            out.append(('move', tr, s_, d_))
    seen, res = set(), []
    for k in out:
        if k not in seen:
            seen.add(k)
            res.append(k)
    return res


def twins():
    return [('move', ((2, 3),), 0, 1), ('ravel', ((2, 3, 4),), 0, 1)]


def _make(key):
    from furax import MoveAxisOperator, RavelOperator, ReshapeOperator
    kind, shapes = key[0], key[1]
    ins = _ins(shapes)
    if kind == 'move':
        if len(key) > 4:  # the same axes given as lists (any sequence is a legal argument)
            return lambda: MoveAxisOperator(list(key[2]), list(key[3]), in_structure=ins)
        return lambda: MoveAxisOperator(key[2], key[3], in_structure=ins)
    if kind == 'ravel':
        return lambda: RavelOperator(key[2], key[3], in_structure=ins)
    return lambda: ReshapeOperator(tuple(key[2]), in_structure=ins)


class _OutOfScope(Exception):
    """Arguments the property says nothing about (a ravel axis outside the rank of some leaf)."""


def _np_apply(key, arr):
    kind = key[0]
    if kind == 'move':
        return np.moveaxis(arr, key[2], key[3])
    if kind == 'ravel':
        r = arr.ndim
        f = key[2] + r if key[2] < 0 else key[2]
        l = key[3] + r if key[3] < 0 else key[3]
        if not (0 <= f < r and 0 <= l < r):
            raise _OutOfScope(f'axis out of range for rank {r}')
        if f > l:
            raise ValueError('first axis after last axis')
        return arr.reshape(arr.shape[:f] + (int(np.prod(arr.shape[f:l + 1])),) + arr.shape[l + 1:])
    return arr.reshape(tuple(key[2]))


def run_case(key, twin=False):
    if key and key[0] == 'twin':
        return run_case(key[1], twin=True)
    from furax._base.core import IdentityOperator
    kind, shapes = key[0], key[1]
    ins = _ins(shapes)
    mk = _make(key)
    legal, why = True, ''
    try:
        want_shapes = [_np_apply(key, np.empty(s)).shape for s in shapes]
    except _OutOfScope as ex:
        return skipped(str(ex))
    except Exception as ex:  # noqa: BLE001
        legal, why = False, f'{type(ex).__name__}: {ex}'
    try:
        op0 = mk()
        built, err = True, None
    except Exception as ex:  # noqa: BLE001
        built, err = False, ex
    if not legal:
        if built and kind != 'move':
            # construction succeeded although some leaf cannot take the arguments
            try:
                jax.eval_shape(op0.mv, ins)
                applies = True
            except Exception:  # noqa: BLE001
                applies = False
            return violation(f'{kind} arguments {key[2:]} on {shapes} cannot apply ({why}) but the constructor accepts them '
                             f'(mv then {"works" if applies else "fails"})', signature=f'c13-illegal-accepted:{key}', kind='legality')
        return ok(obligations=0, nontrivial=False, legality_checks=1)
    if not built:
        if kind == 'reshape' and any(t < -1 for t in key[2]):
            return ok(obligations=0, nontrivial=False, legality_checks=1)  # furax may be stricter than NumPy >= 2
        return violation(f'{kind}{key[2:]} on {shapes} is legal for NumPy but furax raises {type(err).__name__}: {str(err)[:100]}',
                         signature=f'c13-legal-rejected:{key}', kind='legality')
    outs = jax.tree.unflatten(jax.tree.structure(ins), [S(*s) for s in want_shapes])
    if not structs_equal(op0.out_structure(), outs):
        return violation(f'out_structure {describe_struct(op0.out_structure())} != NumPy {describe_struct(outs)} for {key}', signature=f'c13-struct:{key}', kind='struct')
    ctx = E.Ctx()
    dec = Decider()
    x, y = E.symbols('x', ins), E.symbols('y', outs)
    res = []
    got, gs, _ = E.run(ctx, lambda x: mk().mv(x), [('x', ins, 'sym')])
    want = jax.tree.map(lambda l: E.fix(_np_apply(key, l)), x, is_leaf=E.is_sym)
    if twin:
        want = jax.tree.map(lambda l: E.fix(l.reshape(-1)[::-1].reshape(l.shape)), want, is_leaf=E.is_sym)
    if not structs_equal(gs, outs):
        return violation(f'mv output {describe_struct(gs)} != NumPy {describe_struct(outs)}', signature=f'c13-struct:{key}', kind='struct')
    res.append(('mv', dec.decide(ctx, pairs(got, want, ctx))))
    t0 = op0.T
    if not structs_equal(t0.in_structure(), outs) or not structs_equal(t0.out_structure(), ins):
        return violation(f'T structures wrong for {key}', signature=f'c13-Tstruct:{key}', kind='struct')
    a, _, _ = E.run(ctx, lambda x: (lambda o: o.T.mv(o.mv(x)))(mk()), [('x', ins, 'sym')])
    b, _, _ = E.run(ctx, lambda y: (lambda o: o.mv(o.T.mv(y)))(mk()), [('y', outs, 'sym')])
    res.append(('T-left-inverse', dec.decide(ctx, pairs(a, x, ctx))))
    res.append(('T-right-inverse', dec.decide(ctx, pairs(b, y, ctx))))
    # reduce(): Identity only if every leaf keeps its shape, and then it is the identity map
    red0 = op0.reduce()
    same_shapes = all(tuple(s) == tuple(w) for s, w in zip(shapes, want_shapes))
    if isinstance(red0, IdentityOperator) and not same_shapes:
        return violation(f'{kind}{key[2:]} on {shapes} is reduced to the identity although it changes a leaf shape', signature=f'c13-reduce-id:{key}', kind='reduce-id')
    c, _, _ = E.run(ctx, lambda x: mk().reduce().mv(x), [('x', ins, 'sym')])
    res.append(('reduce', dec.decide(ctx, pairs(c, got, ctx))))
    # inverse-pair rules
    d1, _, _ = E.run(ctx, lambda x: (lambda o: (o.T @ o).reduce().mv(x))(mk()), [('x', ins, 'sym')])
    d2, _, _ = E.run(ctx, lambda y: (lambda o: (o @ o.T).reduce().mv(y))(mk()), [('y', outs, 'sym')])
    res.append(('rule T@op', dec.decide(ctx, pairs(d1, x, ctx))))
    res.append(('rule op@T', dec.decide(ctx, pairs(d2, y, ctx))))
    if kind in ('ravel', 'reshape'):
        # the inverse-pair rule must only cancel an operator with ITS OWN transpose: A @ B.T for another reshape B of the same input
        from furax import ReshapeOperator
        for pname, target in (('flat', (-1,)), ('row', (1, -1))):
            def mkb(target=target):
                return ReshapeOperator(target, in_structure=ins)
            try:
                bouts = mkb().out_structure()
            except ValueError:
                continue
            if structs_equal(bouts, outs):
                continue
            comp0 = (op0 @ mkb().T).reduce()
            if not structs_equal(comp0.in_structure(), bouts) or not structs_equal(comp0.out_structure(), outs):
                return violation(f'({kind}{key[2:]} @ reshape{target}.T).reduce() on {shapes} maps {describe_struct(comp0.in_structure())} -> '
                                 f'{describe_struct(comp0.out_structure())}, expected {describe_struct(bouts)} -> {describe_struct(outs)}',
                                 signature=f'c13-foreign-pair-struct:{key}:{pname}', kind='struct')
            yb = [('yb', bouts, 'sym')]
            f1, _, _ = E.run(ctx, lambda yb, mkb=mkb: (mk() @ mkb().T).reduce().mv(yb), yb)
            f2, _, _ = E.run(ctx, lambda yb, mkb=mkb: mk().mv(mkb().T.mv(yb)), yb)
            res.append((f'foreign pair {pname}', dec.decide(ctx, pairs(f1, f2, ctx))))
    if kind == 'move':
        d3, _, _ = E.run(ctx, lambda x: (lambda o: (o.I @ o).reduce().mv(x))(mk()), [('x', ins, 'sym')])
        res.append(('rule I@op', dec.decide(ctx, pairs(d3, x, ctx))))
        # the same move applied twice is in general NOT the identity: reduce() must not treat it as an inverse pair
        from furax import MoveAxisOperator
        try:
            MoveAxisOperator(key[2], key[3], in_structure=outs).out_structure()
            twice = True
        except Exception:  # noqa: BLE001
            twice = False
        if isinstance(key[2], tuple) and len(key[2]) >= 2:
            # a second move whose axis SETS are those of the inverse but paired differently is not the inverse
            src2, dst2 = tuple(key[3]), tuple(key[2][1:] + key[2][:1])
            try:
                MoveAxisOperator(src2, dst2, in_structure=outs).out_structure()

                def mis(red):
                    def f(x):
                        o = mk()
                        c = MoveAxisOperator(src2, dst2, in_structure=outs) @ o
                        return (c.reduce() if red else c).mv(x)
                    return f
                m1, _, _ = E.run(ctx, mis(False), [('x', ins, 'sym')])
                m2, _, _ = E.run(ctx, mis(True), [('x', ins, 'sym')])
                res.append(('differently paired move', dec.decide(ctx, pairs(m1, m2, ctx))))
            except ValueError:
                pass
        if twice:
            def two(red):
                def f(x):
                    o = mk()
                    o2 = MoveAxisOperator(key[2], key[3], in_structure=outs)
                    c = o2 @ o
                    return (c.reduce() if red else c).mv(x)
                return f
            e1, _, _ = E.run(ctx, two(False), [('x', ins, 'sym')])
            e2, _, _ = E.run(ctx, two(True), [('x', ins, 'sym')])
            res.append(('same move twice', dec.decide(ctx, pairs(e1, e2, ctx))))
    common = dict(prims=sorted(ctx.prims), **dec.stats())
    nob = common.pop('obligations')
    bad = [(n, r) for n, r in res if r.status != 'unsat']
    if not bad:
        nontrivial = not all(p == q for p, q in pairs(got, x, ctx)) if same_shapes else True
        return ok(obligations=nob, nontrivial=nontrivial, sample=dict(case=repr(key), out=[list(s) for s in want_shapes],
                                                                      reduced=type(red0).__name__, verdict='unsat'), **common)
    if any(r.status == 'unknown' for _, r in bad):
        return inconclusive('solver unknown', obligations=nob, **common)
    n, r = bad[0]
    return violation(f'{n} fails for {key}', model=r.model, signature=f'c13-{n}:{key}', kind=n, twin=twin, obligations=nob, **common)


def replay(key, model, info):
    twin = False
    if key and key[0] == 'twin':
        key, twin = key[1], True
    from .c01 import _tuplify
    key = _tuplify(key)
    kind = info.get('kind')
    if kind in ('legality', 'struct', 'reduce-id'):
        r = run_case(key)
        return r['status'] == 'violation', r.get('what', 'ok')
    ins = _ins(key[1])
    op = _make(key)()
    x = model_tree(model, 'x', ins)
    y = model_tree(model, 'y', op.out_structure())
    if kind == 'mv':
        want = jax.tree.map(lambda l: _np_apply(key, np.asarray(l)), x)
        if twin:
            want = jax.tree.map(lambda l: l.reshape(-1)[::-1].reshape(l.shape), want)
        close, msg = trees_close(op.mv(x), want)
    elif kind == 'T-left-inverse':
        close, msg = trees_close(op.T.mv(op.mv(x)), x)
    elif kind == 'T-right-inverse':
        close, msg = trees_close(op.mv(op.T.mv(y)), y)
    elif kind == 'reduce':
        close, msg = trees_close(op.reduce().mv(x), op.mv(x))
    elif kind == 'rule T@op':
        close, msg = trees_close((op.T @ op).reduce().mv(x), x)
    elif kind == 'rule op@T':
        close, msg = trees_close((op @ op.T).reduce().mv(y), y)
    elif kind == 'rule I@op':
        close, msg = trees_close((op.I @ op).reduce().mv(x), x)
    elif kind and kind.startswith('foreign pair'):
        from furax import ReshapeOperator
        target = (-1,) if kind.endswith('flat') else (1, -1)
        b = ReshapeOperator(target, in_structure=ins)
        yb = model_tree(model, 'yb', b.out_structure())
        close, msg = trees_close((op @ b.T).reduce().mv(yb), op.mv(b.T.mv(yb)))
    elif kind == 'differently paired move':
        from furax import MoveAxisOperator
        o2 = MoveAxisOperator(tuple(key[3]), tuple(key[2][1:] + key[2][:1]), in_structure=op.out_structure())
        close, msg = trees_close((o2 @ op).reduce().mv(x), o2.mv(op.mv(x)))
    elif kind == 'same move twice':
        from furax import MoveAxisOperator
        o2 = MoveAxisOperator(key[2], key[3], in_structure=op.out_structure())
        close, msg = trees_close((o2 @ op).reduce().mv(x), o2.mv(op.mv(x)))
    else:
        return False, f'unknown kind {kind}'
    return (not close), f'{kind} for {key}: {msg}'
