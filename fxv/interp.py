"""fxsmt interpreter: evaluates a jaxpr (the IR of the real furax code, regenerated from /repo on
every run) over exact symbolic values.

Values are numpy arrays.  A numeric dtype means "concrete"; dtype=object means "symbolic", with
elements of type Poly (exact polynomial over Q), Cyc (element of a cyclotomic extension, FFT model)
or BoolE (symbolic Boolean).  Primitives whose operands are all concrete are executed by the real
primitive; (bi)linear data-movement primitives are never re-implemented: their coefficient tensor
is probed from the real primitive.  Everything that is not covered raises Unsupported, which the
harness reports as *inconclusive*, never as success.
"""
from __future__ import annotations

import math
from fractions import Fraction

import jax
import jax.extend.core
import jax.numpy as jnp
import numpy as np

from .cyc import Cyc, Field, complex_to_cyc, dft_last_axis
from .poly import NonFinite, Poly, lift, to_frac

assert jax.config.jax_enable_x64, 'the engine must run with jax_enable_x64=True (set by fxv.env)'


class Unsupported(Exception):
    """The jaxpr contains something the exact interpreter does not model."""


class OutOfBounds(Exception):
    """A gather read XLA's out-of-bounds fill value."""


# ------------------------------------------------------------------------------------------------
# symbolic Booleans


class BoolE:
    __slots__ = ('op', 'args')

    def __init__(self, op, *args):
        self.op = op
        self.args = args

    @staticmethod
    def const(b):
        return BoolE('const', bool(b))

    def key(self):
        return (self.op,) + tuple(a.key() if isinstance(a, BoolE) else a for a in self.args)

    def __hash__(self):
        return hash(self.key())

    def __eq__(self, o):
        return isinstance(o, BoolE) and self.key() == o.key()

    def __repr__(self):
        return f'BoolE{self.key()}'


def b_and(a, b):
    return BoolE('and', a, b)


def b_or(a, b):
    return BoolE('or', a, b)


def b_not(a):
    return BoolE('not', a)


# ------------------------------------------------------------------------------------------------
# context


class Ctx:
    """Side conditions and definitional atoms collected while interpreting."""

    def __init__(self):
        self.n = 0
        self.memo = {}
        self.divs = []  # (q, den): den != 0 -> q*den == 1
        self.ites = []  # (v, cond BoolE, then Poly, else Poly)
        self.trig = {}  # atom -> True  (C$atom^2 + S$atom^2 == 1)
        self.eqs = []  # assumed equalities (lhs Poly, rhs Poly) from contract stubs
        self.rounds = []  # (r_atom_name, arg Poly, mode)
        self.int_atoms = set()
        self.ufs = []  # (atom_name, fname, args tuple of Poly)
        self.ranges = []  # (Poly, lo, hi, label): obligations "value fits dtype"
        self.stats = {'concrete': 0, 'linear': 0, 'bilinear': 0, 'elementwise': 0, 'probe_hits': 0}
        self.prims = set()
        self.field = None
        self.notes = []
        self.stub_solves = 0

    def fresh(self, base):
        self.n += 1
        return f'{base}!{self.n}'


# ------------------------------------------------------------------------------------------------
# helpers


def is_sym(a):
    return isinstance(a, np.ndarray) and a.dtype == object


def _wrap0(o):
    a = np.empty((), dtype=object)
    a[()] = o
    return a


def obj_array(shape, fill):
    out = np.empty(shape, dtype=object)
    if out.ndim == 0:
        out[()] = fill(())
    else:
        for idx in np.ndindex(*shape):
            out[idx] = fill(idx)
    return out


def to_obj(a, ctx=None):
    """Concrete array -> object array of constants (exact)."""
    if is_sym(a):
        return a
    a = np.asarray(a)
    out = np.empty(a.shape, dtype=object)
    if a.dtype == bool:
        conv = BoolE.const
    elif np.iscomplexobj(a):
        def conv(z):
            if z.imag == 0:
                return Poly.const(z.real)
            if ctx is None:
                raise Unsupported('complex constant outside a context')
            if ctx.field is None:
                from .cyc import Field
                ctx.field = Field.get(4)     # Q(i) is enough for a non-FFT program that meets a complex constant
            return complex_to_cyc(ctx.field, z)
    else:
        conv = Poly.const
    if a.ndim == 0:
        out[()] = conv(a.item())
    else:
        flat = out.reshape(-1)
        for i, v in enumerate(a.reshape(-1).tolist()):
            flat[i] = conv(v)
    return out


def fix(o):
    """numpy 0-d object arrays decay to bare scalars after arithmetic: re-wrap."""
    if isinstance(o, np.ndarray):
        return o
    if isinstance(o, (Poly, Cyc, BoolE)):
        return _wrap0(o)
    return np.asarray(o)


def sym_array(name, shape):
    if tuple(shape) == ():
        return _wrap0(Poly.var(name))
    return obj_array(tuple(shape), lambda idx: Poly.var(name + '_' + '_'.join(map(str, idx))))


def bind(eqn, *ins):
    return eqn.primitive.bind(*ins, **eqn.params)


# ------------------------------------------------------------------------------------------------
# coefficient probing of (bi)linear primitives

# data operand positions of primitives that are jointly linear in them; None = all operands
LINEAR = {
    'reshape': [0], 'transpose': [0], 'squeeze': [0], 'expand_dims': [0], 'broadcast_in_dim': [0],
    'slice': [0], 'rev': [0], 'copy': [0], 'copy_p': [0], 'concatenate': None, 'pad': [0, 1],
    'dynamic_slice': [0], 'dynamic_update_slice': [0, 1], 'gather': [0], 'scatter': [0, 2],
    'scatter-add': [0, 2], 'scatter_add': [0, 2], 'reduce_sum': [0], 'cumsum': [0], 'unstack': [0],
    'split': [0], 'neg': [0], 'convert_element_type': [0], 'real': [0], 'imag': [0],
    'reduce_precision': [0], 'csr_todense': [0], 'coo_todense': [0], 'bcoo_todense': [0], 'tile': [0], 'roll': [0], 'diagonal': [0], 'triu': [0], 'tril': [0],
}
BILINEAR = {'dot_general': (0, 1), 'conv_general_dilated': (0, 1), 'csr_matvec': (0, 3),
            'csr_matmat': (0, 3)}
CALLS = ('jit', 'pjit', 'closed_call', 'core_call', 'custom_jvp_call', 'custom_vjp_call',
         'custom_vjp_call_jaxpr', 'remat', 'checkpoint', 'custom_lin')
# never bound concretely: their floating-point results are inexact
EXACT_MODELS = ('cos', 'sin', 'fft')

_probe_cache = {}


def _probe_key(eqn, ins, data_pos):
    parts = [eqn.primitive.name, repr(sorted((k, repr(v)) for k, v in eqn.params.items()))]
    for p, (a, v) in enumerate(zip(ins, eqn.invars)):
        if p in data_pos:
            parts.append(('d', tuple(np.shape(a)), str(v.aval.dtype)))
        else:
            a = np.asarray(a)
            parts.append(('c', a.shape, str(a.dtype), a.tobytes()))
    return tuple(parts)


def _combine(coeff, elems, oshape):
    """coeff: (N, P) exact small numbers; elems: N symbolic elements -> object array oshape."""
    P = coeff.shape[1]
    out = np.empty(P, dtype=object)
    for j in range(P):
        acc = Poly()
        for k in np.nonzero(coeff[:, j])[0]:
            c = coeff[k, j]
            acc = acc + elems[k] * (int(c) if float(c).is_integer() else to_frac(c))
        out[j] = acc
    return out.reshape(oshape)


def probe_linear(eqn, ins, data_pos, ctx):
    name = eqn.primitive.name
    data_pos = list(range(len(ins))) if data_pos is None else list(data_pos)
    for p in range(len(ins)):
        if p not in data_pos and is_sym(ins[p]):
            raise Unsupported(f'{name}: symbolic value in a non-data operand (position {p})')
    shapes = [tuple(np.shape(ins[p])) for p in data_pos]
    sizes = [int(np.prod(s)) for s in shapes]
    dtypes = [eqn.invars[p].aval.dtype for p in data_pos]
    N = sum(sizes)
    out_avals = [v.aval for v in eqn.outvars]
    if N == 0 or all(int(np.prod(a.shape)) == 0 for a in out_avals):
        return [np.empty(a.shape, dtype=object) if int(np.prod(a.shape)) == 0
                else obj_array(a.shape, lambda _: Poly()) for a in out_avals]
    key = _probe_key(eqn, ins, data_pos)
    hit = _probe_cache.get(key)
    if hit is None:
        def f(vec):
            args = list(ins)
            off = 0
            for p, s, n, dt in zip(data_pos, shapes, sizes, dtypes):
                args[p] = vec[off:off + n].reshape(s).astype(dt)
                off += n
            args = [jnp.asarray(a) for a in args]
            out = bind(eqn, *args)
            return list(out) if eqn.primitive.multiple_results else [out]

        eye = jnp.eye(N, dtype=jnp.float64)
        try:
            M = jax.vmap(f)(eye)
        except NotImplementedError:  # primitive without a batching rule: one call per basis vector
            cols = [f(eye[i]) for i in range(N)]
            M = [jnp.stack([c[k] for c in cols]) for k in range(len(cols[0]))]
        z = f(jnp.zeros(N, dtype=jnp.float64))
        hit = []
        for Mo, zo in zip(M, z):
            Mo = np.asarray(Mo)
            if np.any(np.asarray(zo) != 0):
                raise Unsupported(f'{name}: not linear (f(0) != 0)')
            if np.iscomplexobj(Mo):
                if np.any(Mo.imag != 0):
                    raise Unsupported(f'{name}: complex coefficient')
                Mo = Mo.real
            if np.any(np.isnan(Mo.astype(np.float64))):
                raise OutOfBounds(f'{name}: out-of-bounds fill value read')
            hit.append((Mo.reshape(N, -1).astype(np.float64), Mo.shape[1:]))
        _probe_cache[key] = hit
    else:
        ctx.stats['probe_hits'] += 1
    elems = np.concatenate([to_obj(ins[p], ctx).reshape(-1) for p in data_pos])
    outs = [_combine(Mo, elems, oshape) for Mo, oshape in hit]
    ctx.stats['linear'] += 1
    return outs


def probe_bilinear(eqn, ins, pos, ctx):
    name = eqn.primitive.name
    a, b = ins[pos[0]], ins[pos[1]]
    for p in range(len(ins)):
        if p not in pos and is_sym(ins[p]):
            raise Unsupported(f'{name}: symbolic value in a non-data operand (position {p})')
    sa, sb = tuple(np.shape(a)), tuple(np.shape(b))
    na, nb = int(np.prod(sa)), int(np.prod(sb))
    da, db = eqn.invars[pos[0]].aval.dtype, eqn.invars[pos[1]].aval.dtype
    key = _probe_key(eqn, ins, list(pos))
    hit = _probe_cache.get(key)
    if hit is None:
        def f(va, vb):
            args = list(ins)
            args[pos[0]] = va.reshape(sa).astype(da)
            args[pos[1]] = vb.reshape(sb).astype(db)
            out = bind(eqn, *[jnp.asarray(x) for x in args])
            return out[0] if eqn.primitive.multiple_results else out

        try:
            T = jax.vmap(jax.vmap(f, (None, 0)), (0, None))(jnp.eye(na), jnp.eye(nb))
        except NotImplementedError:
            ea_, eb_ = jnp.eye(na), jnp.eye(nb)
            T = jnp.stack([jnp.stack([f(ea_[i], eb_[k]) for k in range(nb)]) for i in range(na)])
        T = np.asarray(T)
        if np.iscomplexobj(T):
            if np.any(T.imag != 0):
                raise Unsupported(f'{name}: complex coefficient')
            T = T.real
        hit = (T.reshape(na, nb, -1).astype(np.float64), T.shape[2:])
        _probe_cache[key] = hit
    else:
        ctx.stats['probe_hits'] += 1
    T, oshape = hit
    ea, eb = to_obj(a, ctx).reshape(-1), to_obj(b, ctx).reshape(-1)
    out = np.empty(T.shape[2], dtype=object)
    prod_cache = {}
    for j in range(T.shape[2]):
        acc = Poly()
        for i, k in zip(*np.nonzero(T[:, :, j])):
            pr = prod_cache.get((i, k))
            if pr is None:
                pr = prod_cache[(i, k)] = ea[i] * eb[k]
            c = T[i, k, j]
            acc = acc + pr * (int(c) if float(c).is_integer() else to_frac(c))
        out[j] = acc
    ctx.stats['bilinear'] += 1
    return [out.reshape(oshape)]


# ------------------------------------------------------------------------------------------------
# trig model


def _lin_form(p):
    lf = {}
    c = Fraction(0)
    for k, v in p.t.items():
        if k == ():
            c = v
        elif len(k) == 1 and k[0][1] == 1:
            lf[k[0][0]] = v
        else:
            raise Unsupported('non-linear argument of cos/sin')
    return lf, c


def trig_of(p, ctx):
    """(cos p, sin p) as polynomials in (C$a, S$a) atoms; exact for all real angles."""
    if isinstance(p, Cyc):
        raise Unsupported('complex argument of cos/sin')
    lf, c = _lin_form(p)
    if c != 0:
        # a concrete (rational) offset becomes one more angle atom shared by all occurrences
        lf = dict(lf)
        lf[f'const[{c}]'] = Fraction(1)
    cs = (Poly.const(1), Poly.const(0))
    for atom, coeff in sorted(lf.items()):
        if coeff.denominator != 1:
            raise Unsupported(f'non-integer multiple {coeff} of angle atom {atom}')
        n = int(coeff)
        C, S = Poly.var('C$' + atom), Poly.var('S$' + atom)
        ctx.trig[atom] = True
        if n < 0:
            S = -S
            n = -n
        cn, sn = Poly.const(1), Poly.const(0)
        for _ in range(n):
            cn, sn = cn * C - sn * S, sn * C + cn * S
        cs = (cs[0] * cn - cs[1] * sn, cs[1] * cn + cs[0] * sn)
    return cs


# ------------------------------------------------------------------------------------------------
# element-wise primitives

CMP_OPS = ('ne', 'eq', 'lt', 'le', 'gt', 'ge')


def _map(f, *arrs):
    arrs = np.broadcast_arrays(*arrs)
    out = np.empty(arrs[0].shape, dtype=object)
    if out.ndim == 0:
        out[()] = f(*[a[()] for a in arrs])
    else:
        for idx in np.ndindex(*out.shape):
            out[idx] = f(*[a[idx] for a in arrs])
    return out


def _inverse_atom(den, ctx):
    if isinstance(den, Cyc):
        if den.is_rational():
            den = den.c[0]
        else:
            raise Unsupported('division by a complex symbolic value')
    if den.is_const() and den.const_value() != 0:
        return Poly.const(1 / den.const_value())
    key = ('inv', den)
    if key not in ctx.memo:
        q = Poly.var(ctx.fresh('q'))
        ctx.memo[key] = q
        ctx.divs.append((q, den))
    return ctx.memo[key]


def _ite_atom(c, t, f, ctx):
    if not isinstance(c, BoolE):
        raise Unsupported('select on a non-Boolean symbolic predicate')
    if c.op == 'const':
        return t if c.args[0] else f
    if isinstance(t, Cyc) or isinstance(f, Cyc):
        raise Unsupported('select between complex symbolic values')
    if t == f:
        return t
    key = ('ite', c.key(), t, f)
    if key not in ctx.memo:
        name = ctx.fresh('v')
        v = Poly.var(name)
        ctx.memo[key] = v
        ctx.ites.append((v, c, t, f))
        if is_integral(t, ctx) and is_integral(f, ctx):
            ctx.int_atoms.add(name)
    return ctx.memo[key]


def is_integral(p, ctx):
    if not isinstance(p, Poly):
        return False
    for k, v in p.t.items():
        if v.denominator != 1:
            return False
        if any(a not in ctx.int_atoms for a, _ in k):
            return False
    return True


def _uf(fname, args, ctx):
    key = ('uf', fname, args)
    if key not in ctx.memo:
        name = ctx.fresh('u')
        ctx.memo[key] = Poly.var(name)
        ctx.ufs.append((name, fname, args))
    return ctx.memo[key]


def _round_atom(x, mode, ctx):
    if is_integral(x, ctx):
        return x
    if x.is_const():
        v = x.const_value()
        if mode == 'floor':
            return Poly.const(math.floor(v))
        if mode == 'ceil':
            return Poly.const(math.ceil(v))
        if mode == 'trunc':
            return Poly.const(math.trunc(v))
        if mode == 'half_even':
            return Poly.const(round(v))  # Python rounds half to even on Fractions
    key = ('round', mode, x)
    if key not in ctx.memo:
        name = ctx.fresh('r')
        ctx.memo[key] = Poly.var(name)
        ctx.int_atoms.add(name)
        ctx.rounds.append((name, x, mode))
    return ctx.memo[key]


def elementwise(name, eqn, ins, ctx):
    ctx.stats['elementwise'] += 1
    o = [to_obj(i, ctx) for i in ins]
    if name in ('add', 'add_any', 'sub', 'mul'):
        r = o[0] + o[1] if name in ('add', 'add_any') else (o[0] - o[1] if name == 'sub' else o[0] * o[1])
        dt = eqn.outvars[0].aval.dtype
        if np.issubdtype(dt, np.integer):
            # machine integers wrap: record the obligation that the exact value fits the dtype
            info = np.iinfo(dt)
            for a in fix(r).reshape(-1):
                if isinstance(a, Poly) and not a.is_const():
                    ctx.ranges.append((a, int(info.min), int(info.max), f'{name} in {np.dtype(dt).name}'))
        return [r]
    if name == 'neg':
        return [-o[0]]
    if name == 'div':
        if np.issubdtype(eqn.outvars[0].aval.dtype, np.integer):
            raise Unsupported('integer division on symbolic values')
        return [_map(lambda a, b: a * _inverse_atom(b, ctx), o[0], o[1])]
    if name == 'integer_pow':
        y = eqn.params['y']
        if y == 0:
            return [_map(lambda a: Poly.const(1), o[0])]
        base = o[0] if y > 0 else _map(lambda a: _inverse_atom(a, ctx), o[0])
        r = base
        for _ in range(abs(y) - 1):
            r = r * base
        return [r]
    if name == 'square':
        return [o[0] * o[0]]
    if name in CMP_OPS:
        def cmp(a, b):
            if isinstance(a, Cyc) or isinstance(b, Cyc):
                raise Unsupported('comparison of complex symbolic values')
            if isinstance(a, BoolE) or isinstance(b, BoolE):
                if name in ('eq', 'ne'):
                    return BoolE('b' + name, a, b)
                raise Unsupported('ordering of Booleans')
            d = a - b
            if d.is_const():
                v = d.const_value()
                return BoolE.const({'ne': v != 0, 'eq': v == 0, 'lt': v < 0, 'le': v <= 0,
                                    'gt': v > 0, 'ge': v >= 0}[name])
            return BoolE('cmp', name, a, b)
        return [_map(cmp, o[0], o[1])]
    if name in ('and', 'or', 'not', 'xor'):
        if not all(isinstance(x.reshape(-1)[0], BoolE) for x in o if x.size):
            raise Unsupported(f'bitwise {name} on symbolic integers')
        if name == 'not':
            return [_map(b_not, o[0])]
        if name == 'xor':
            return [_map(lambda a, b: BoolE('bne', a, b), o[0], o[1])]
        return [_map(b_and if name == 'and' else b_or, o[0], o[1])]
    if name == 'select_n':
        pred = o[0]
        if len(o) != 3:
            raise Unsupported('select_n with more than two cases and a symbolic predicate')
        return [_map(lambda c, f, t: _ite_atom(c, t, f, ctx), pred, o[1], o[2])]
    if name in ('max', 'min'):
        op = 'ge' if name == 'max' else 'le'
        return [_map(lambda a, b: _ite_atom(BoolE('cmp', op, a, b), a, b, ctx), o[0], o[1])]
    if name == 'clamp':
        # clamp(lo, x, hi) = min(max(x, lo), hi)
        def cl(lo, x, hi):
            m = _ite_atom(BoolE('cmp', 'ge', x, lo), x, lo, ctx)
            return _ite_atom(BoolE('cmp', 'le', m, hi), m, hi, ctx)
        return [_map(cl, o[0], o[1], o[2])]
    if name == 'abs':
        return [_map(lambda a: _ite_atom(BoolE('cmp', 'ge', a, Poly()), a, -a, ctx), o[0])]
    if name == 'sign':
        def sg(a):
            pos = _ite_atom(BoolE('cmp', 'gt', a, Poly()), Poly.const(1), Poly.const(0), ctx)
            neg = _ite_atom(BoolE('cmp', 'lt', a, Poly()), Poly.const(1), Poly.const(0), ctx)
            return pos - neg
        return [_map(sg, o[0])]
    if name in ('cos', 'sin'):
        return [_map(lambda a: trig_of(a, ctx)[0 if name == 'cos' else 1], o[0])]
    if name == 'fft':
        ft = int(eqn.params['fft_type'])
        lengths = tuple(eqn.params['fft_lengths'])
        if len(lengths) != 1 or ft not in (0, 1, 2, 3):
            raise Unsupported(f'fft type {eqn.params["fft_type"]} lengths {lengths}')
        n = lengths[0]
        if ft in (0, 1):
            return [dft_last_axis(ctx.field, o[0], n, ft == 1)]
        if ft == 2:  # RFFT: the first n//2+1 coefficients of the DFT of a real signal
            full = dft_last_axis(ctx.field, o[0], n, False)
            return [full[..., : n // 2 + 1]]
        # IRFFT: Hermitian completion of the half spectrum, inverse DFT, real part
        half = o[0]
        if half.shape[-1] != n // 2 + 1:
            raise Unsupported(f'irfft: input length {half.shape[-1]} for output length {n}')
        F = ctx.field
        full = np.empty(half.shape[:-1] + (n,), dtype=object)
        for k in range(n):
            if k <= n // 2:
                full[..., k] = half[..., k]
            else:
                src = half[..., n - k]
                full[..., k] = _map(lambda v: Cyc.of(F, v).conj(), src) if src.ndim else Cyc.of(F, src[()]).conj()
        res = dft_last_axis(F, full, n, True)
        return [_map(_real_part, res)]
    if name == 'real':
        return [_map(lambda v: v.real().c[0] if isinstance(v, Cyc) and v.real().is_rational()
                     else (_real_part(v)), o[0])]
    if name == 'imag':
        return [_map(lambda v: _imag_part(v), o[0])]
    if name == 'conj':
        return [_map(lambda v: v.conj() if isinstance(v, Cyc) else v, o[0])]
    if name == 'complex':
        I = ctx.field.I if ctx.field is not None else None
        if I is None:
            raise Unsupported('complex() outside an FFT field')
        return [_map(lambda a, b: Cyc.of(ctx.field, a) + I * b, o[0], o[1])]
    if name == 'round':
        mode = {'0': 'half_away', '1': 'half_even'}.get(str(int(eqn.params['rounding_method'])))
        if mode != 'half_even':
            raise Unsupported('round away from zero')
        return [_map(lambda a: _round_atom(a, 'half_even', ctx), o[0])]
    if name in ('floor', 'ceil'):
        return [_map(lambda a: _round_atom(a, name, ctx), o[0])]
    if name == 'exp' and any(isinstance(v, Cyc) for v in o[0].reshape(-1)):
        def cexp(v):
            if not isinstance(v, Cyc):
                return _uf('exp', (v,), ctx)
            re, im = _real_part(v), _imag_part(v)
            if isinstance(re, Cyc) or isinstance(im, Cyc):
                raise Unsupported('exp of a field element that is not of the form x + i y')
            if not (isinstance(re, Poly) and re.is_zero()):
                raise Unsupported('exp of a complex number with a non-zero real part')
            c, s_ = trig_of(im, ctx)
            return Cyc.of(ctx.field, c) + ctx.field.I * s_
        return [_map(cexp, o[0])]
    if name in ('pow', 'exp', 'log', 'sqrt', 'rsqrt', 'tanh', 'atan2', 'acos', 'asin', 'exp2',
                'log1p', 'expm1', 'logistic', 'erf', 'tan', 'atan', 'cbrt'):
        return [_map(lambda *a: _uf(name, tuple(a), ctx), *o)]
    if name == 'reduce_prod':
        raise Unsupported('reduce_prod on symbolic values')
    raise Unsupported(f'primitive {name!r} with a symbolic operand')


def _real_part(v):
    if not isinstance(v, Cyc):
        return v
    r = v.real()
    if not r.is_rational():
        # a real number of the field that is not rational: keep the field element; the comparison
        # with a rational oracle then (correctly) requires the irrational components to vanish
        return r
    return r.c[0]


def _imag_part(v):
    if not isinstance(v, Cyc):
        return Poly()
    r = v.imag()
    return r.c[0] if r.is_rational() else r


# ------------------------------------------------------------------------------------------------
# special primitives registered by stubs (fxv.stubs)

SPECIAL = {}


# ------------------------------------------------------------------------------------------------
# the evaluator


def _sub_jaxpr(eqn):
    for k in ('jaxpr', 'call_jaxpr', 'fun_jaxpr'):
        sub = eqn.params.get(k)
        if sub is not None:
            if hasattr(sub, 'jaxpr'):
                return sub.jaxpr, list(sub.consts)
            return sub, []
    raise Unsupported(f'call-like primitive {eqn.primitive.name} without a jaxpr parameter')


def _live_eqns(jaxpr):
    """Indices of equations the outputs depend on (dead code is never interpreted)."""
    needed = {v for v in jaxpr.outvars if not isinstance(v, jax.extend.core.Literal)}
    live = []
    for i in range(len(jaxpr.eqns) - 1, -1, -1):
        eqn = jaxpr.eqns[i]
        if any(v in needed for v in eqn.outvars) or eqn.primitive.name in SPECIAL_EFFECTFUL:
            live.append(i)
            for v in eqn.invars:
                if not isinstance(v, jax.extend.core.Literal):
                    needed.add(v)
    return set(live)


SPECIAL_EFFECTFUL = set()


def collect_fft_lengths(jaxpr, acc):
    for eqn in jaxpr.eqns:
        if eqn.primitive.name == 'fft':
            acc.update(int(n) for n in eqn.params['fft_lengths'])
        for v in eqn.params.values():
            vs = v if isinstance(v, (list, tuple)) else [v]
            for w in vs:
                if hasattr(w, 'jaxpr') and hasattr(w.jaxpr, 'eqns'):
                    collect_fft_lengths(w.jaxpr, acc)
                elif hasattr(w, 'eqns'):
                    collect_fft_lengths(w, acc)
    return acc


def eval_jaxpr(jaxpr, consts, args, ctx):
    env = {}

    def read(v):
        if isinstance(v, jax.extend.core.Literal):
            return np.asarray(v.val)
        return env[v]

    for v, c in zip(jaxpr.constvars, consts):
        env[v] = c if is_sym(c) else np.asarray(c)
    for v, a in zip(jaxpr.invars, args):
        env[v] = a
    live = _live_eqns(jaxpr)
    for i, eqn in enumerate(jaxpr.eqns):
        if i not in live:
            continue
        name = eqn.primitive.name
        ctx.prims.add(name)
        ins = [read(v) for v in eqn.invars]
        anysym = any(is_sym(x) for x in ins)
        if name in CALLS:
            sub, sconsts = _sub_jaxpr(eqn)
            outs = eval_jaxpr(sub, sconsts, ins, ctx)
        elif name == 'scan':
            outs = _eval_scan(eqn, ins, ctx)
        elif name == 'custom_linear_solve':
            # lax.custom_linear_solve(matvec, b, solve, transpose_solve): evaluate its `solve` jaxpr (the contract stub)
            cl, jps = eqn.params['const_lengths'], eqn.params['jaxprs']
            n0 = cl.matvec + cl.vecmat
            solve_consts = ins[n0:n0 + cl.solve]
            b = ins[cl.matvec + cl.vecmat + cl.solve + cl.transpose_solve:]
            sj = jps.solve
            outs = eval_jaxpr(sj.jaxpr, sj.consts, list(solve_consts) + list(b), ctx)
        elif name == 'while':
            outs = _eval_while(eqn, ins, ctx)
        elif name == 'cond':
            outs = _eval_cond(eqn, ins, ctx)
        elif name in SPECIAL:
            outs = SPECIAL[name](eqn, ins, ctx)
        elif name == 'debug_callback':
            outs = []
        elif name in ('stop_gradient', 'optimization_barrier'):
            outs = list(ins)  # identity on values
        elif not anysym and name not in EXACT_MODELS:
            try:
                r = bind(eqn, *[jnp.asarray(x) for x in ins])
            except Exception as ex:  # noqa: BLE001
                raise Unsupported(f'concrete evaluation of {name} failed: {ex}') from ex
            ctx.stats['concrete'] += 1
            outs = [np.asarray(x) for x in (r if eqn.primitive.multiple_results else [r])]
        elif name == 'convert_element_type':
            outs = _convert(eqn, ins, ctx)
        elif name == 'select_n' and not is_sym(ins[0]):
            outs = probe_linear(eqn, ins, list(range(1, len(ins))), ctx)
        elif name in ('real', 'imag'):
            outs = elementwise(name, eqn, ins, ctx)
        elif name in LINEAR:
            if any(isinstance(e, BoolE) for x in ins if is_sym(x) for e in x.reshape(-1)[:1]):
                outs = _move_bools(eqn, ins, ctx)
            else:
                outs = probe_linear(eqn, ins, LINEAR[name], ctx)
        elif name in BILINEAR:
            p = BILINEAR[name]
            if is_sym(ins[p[0]]) and is_sym(ins[p[1]]):
                outs = probe_bilinear(eqn, ins, p, ctx)
            else:
                outs = probe_linear(eqn, ins, [p[0] if is_sym(ins[p[0]]) else p[1]], ctx)
        else:
            outs = elementwise(name, eqn, ins, ctx)
        outs = [fix(x) for x in outs]
        for v, x in zip(eqn.outvars, outs):
            if hasattr(v.aval, 'shape') and tuple(np.shape(x)) != tuple(v.aval.shape):
                raise Unsupported(
                    f'{name}: interpreter produced shape {np.shape(x)}, IR says {v.aval.shape}')
            env[v] = x
    return [read(v) for v in jaxpr.outvars]


def _move_bools(eqn, ins, ctx):
    """Data movement of symbolic Booleans: move integer tags with the real primitive."""
    name = eqn.primitive.name
    if name not in ('reshape', 'broadcast_in_dim', 'squeeze', 'transpose', 'expand_dims', 'copy'):
        raise Unsupported(f'{name} on symbolic Booleans')
    src = ins[0]
    tags = np.arange(src.size, dtype=np.int32).reshape(src.shape)
    eq2 = eqn
    moved = np.asarray(eqn.primitive.bind(jnp.asarray(tags), *[jnp.asarray(x) for x in ins[1:]],
                                          **eq2.params))
    flat = src.reshape(-1)
    return [obj_array(moved.shape, lambda idx: flat[int(moved[idx])])]


def _convert(eqn, ins, ctx):
    x = ins[0]
    src = eqn.invars[0].aval.dtype
    dst = eqn.params['new_dtype']
    first = x.reshape(-1)[0] if x.size else None
    if isinstance(first, BoolE):
        if np.issubdtype(dst, np.bool_):
            return [x]
        one, zero = Poly.const(1), Poly.const(0)
        out = _map(lambda b: _ite_atom(b, one, zero, ctx), x)
        return [out]
    if np.issubdtype(dst, np.bool_):
        return [_map(lambda a: BoolE('cmp', 'ne', a, Poly()), x)]
    if np.issubdtype(dst, np.integer) and not np.issubdtype(src, np.integer):
        # XLA converts float -> int by truncation toward zero; exact on integral values
        info = np.iinfo(dst)
        out = _map(lambda a: _round_atom(a, 'trunc', ctx), x)
        for a in out.reshape(-1):
            ctx.ranges.append((a, int(info.min), int(info.max), f'convert to {np.dtype(dst).name}'))
        return [out]
    if np.issubdtype(dst, np.integer) and np.issubdtype(src, np.integer):
        if np.iinfo(dst).bits < np.iinfo(src).bits:
            info = np.iinfo(dst)
            for a in x.reshape(-1):
                ctx.ranges.append((a, int(info.min), int(info.max), f'narrow to {np.dtype(dst).name}'))
        return [x]
    if np.issubdtype(src, np.complexfloating) and not np.issubdtype(dst, np.complexfloating):
        # complex -> real conversion keeps the real part only (XLA semantics of convert_element_type)
        return [_map(lambda v: _real_part(v) if isinstance(v, Cyc) else v, x)]
    # float/complex widening or narrowing: identity in real arithmetic (rounding is outside the claim)
    return [x]


def _eval_scan(eqn, ins, ctx):
    p = eqn.params
    if 'num_consts' in p:
        nc, ncar = p['num_consts'], p['num_carry']
    else:
        nc, ncar = [len(z) for z in p['ft_in'].unpack()][:2]
    consts, carry, xs = ins[:nc], list(ins[nc:nc + ncar]), ins[nc + ncar:]
    body = p['jaxpr']
    length = p['length']
    rng = range(length - 1, -1, -1) if p['reverse'] else range(length)
    ys = None
    for i in rng:
        xi = [x[i] if not is_sym(x) else fix(x[i]) for x in xs]
        out = eval_jaxpr(body.jaxpr, body.consts, list(consts) + carry + xi, ctx)
        carry, y = list(out[:ncar]), out[ncar:]
        if ys is None:
            ys = [[None] * length for _ in y]
        for k, yk in enumerate(y):
            ys[k][i] = yk
    stacked = []
    nys = len(eqn.outvars) - ncar
    for k in range(nys):
        aval = eqn.outvars[ncar + k].aval
        if length == 0:
            stacked.append(np.zeros(aval.shape, aval.dtype))
            continue
        items = ys[k]
        if any(is_sym(it) for it in items):
            arr = np.empty(aval.shape, dtype=object)
            for i, it in enumerate(items):
                arr[i] = to_obj(it, ctx)
            stacked.append(arr)
        else:
            stacked.append(np.stack([np.asarray(it) for it in items]).astype(aval.dtype))
    return carry + stacked


def _eval_while(eqn, ins, ctx):
    p = eqn.params
    nb, ncnd = p['body_nconsts'], p['cond_nconsts']
    cconsts, bconsts, carry = ins[:ncnd], ins[ncnd:ncnd + nb], list(ins[ncnd + nb:])
    for _ in range(100000):
        c = eval_jaxpr(p['cond_jaxpr'].jaxpr, p['cond_jaxpr'].consts, list(cconsts) + carry, ctx)[0]
        if is_sym(c):
            raise Unsupported('while loop with a symbolic predicate')
        if not bool(np.asarray(c)):
            return carry
        carry = eval_jaxpr(p['body_jaxpr'].jaxpr, p['body_jaxpr'].consts, list(bconsts) + carry, ctx)
    raise Unsupported('while loop did not terminate within 100000 iterations')


def _eval_cond(eqn, ins, ctx):
    idx = ins[0]
    if is_sym(idx):
        raise Unsupported('cond with a symbolic predicate')
    branches = eqn.params['branches']
    br = branches[int(np.clip(int(np.asarray(idx)), 0, len(branches) - 1))]
    return eval_jaxpr(br.jaxpr, br.consts, ins[1:], ctx)


# ------------------------------------------------------------------------------------------------
# front end


def _names(name, struct):
    leaves = jax.tree.leaves(struct)
    return [f'{name}{i}' for i in range(len(leaves))]


def symbols(name, struct):
    """Pytree of object arrays of fresh atoms shaped like ``struct`` (same names on every call)."""
    leaves, tdef = jax.tree.flatten(struct)
    return jax.tree.unflatten(tdef, [sym_array(f'{name}{i}', leaf.shape) for i, leaf in enumerate(leaves)])


def run(ctx, fn, args, x64=True):
    """Trace ``fn(*pytrees)`` on the structures in ``args`` and interpret it symbolically.

    args: list of (name, struct_pytree, kind) with kind 'sym' (fresh atoms ``name<leaf>_<idx>``)
    or a pytree of concrete arrays given as (name, value_pytree, 'const').
    Returns (out_pytree, out_avals_pytree).
    """
    structs = []
    for name, st, kind in args:
        if kind == 'sym':
            structs.append(st)
        else:
            structs.append(jax.tree.map(lambda a: jax.ShapeDtypeStruct(np.shape(a), np.asarray(a).dtype), st))
    if x64:
        closed, out_shape = jax.make_jaxpr(fn, return_shape=True)(*structs)
    else:
        with jax.enable_x64(False):
            closed, out_shape = jax.make_jaxpr(fn, return_shape=True)(*structs)
    lengths = collect_fft_lengths(closed.jaxpr, set())
    if lengths:
        M = 4
        for n in lengths:
            M = M * n // math.gcd(M, n)
        if ctx.field is None or ctx.field.M % M:
            if ctx.field is not None:
                M = M * ctx.field.M // math.gcd(M, ctx.field.M)
            ctx.field = Field.get(M)
    vals = []
    for name, st, kind in args:
        if kind == 'sym':
            vals.extend(jax.tree.leaves(symbols(name, st), is_leaf=is_sym))
        else:
            vals.extend(np.asarray(a) for a in jax.tree.leaves(st))
    outs = eval_jaxpr(closed.jaxpr, closed.consts, vals, ctx)
    out_tree = jax.tree.structure(out_shape)
    return jax.tree.unflatten(out_tree, outs), out_shape, closed


def flat_elems(tree, ctx=None):
    """All elements of all leaves of a pytree of (object or numeric) arrays, in leaf order."""
    out = []
    for a in jax.tree.leaves(tree, is_leaf=is_sym):
        out.extend(to_obj(np.asarray(a) if not is_sym(a) else a, ctx).reshape(-1))
    return out
