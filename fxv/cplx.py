"""Complex-valued operators: every complex parameter / input is lax.complex(re, im) of two symbolic real arrays, so the
jaxpr interpreter works exactly in Q(i) (cyclotomic field of order 4) and z3 decides identities over all real and imaginary parts.

Used by C03 (bilinear adjoint identity - the transpose does NOT conjugate) and C04 (complex linearity, dense forms).
Expressions: ('leaf', name) | ('T', e) | ('@', e, e) | ('+', e, e) | ('row'|'col'|'diag', [e, ...]).
"""
from __future__ import annotations

import jax
import jax.numpy as jnp
import numpy as np
from jax import lax

from . import interp as E
from .common import Decider, S, describe_struct, model_tree, pairs, structs_equal
from .cyc import Field
from .harness import inconclusive, ok, skipped, violation

C128 = jnp.complex128
IDX = jnp.array([0, 2, 2, -1])
UIDX = jnp.array([2, 0])


def SC(*shape):
    return jax.ShapeDtypeStruct(tuple(shape), C128)


def _leaves():
    from furax._base.core import HomothetyOperator, IdentityOperator
    from furax._base.dense import DenseBlockDiagonalOperator as Dense
    from furax._base.diagonal import BroadcastDiagonalOperator, DiagonalOperator
    from furax._base.indices import IndexOperator
    from furax._base.axes import MoveAxisOperator, ReshapeOperator
    # name -> (shapes of the complex parameters, constructor from complex arrays)
    return {
        'A': (((3, 3),), lambda a: Dense(a, SC(3), 'ij,j->i')),
        'B': (((3, 3),), lambda a: Dense(a, SC(3), 'ij,j->i')),
        'W': (((2, 3),), lambda a: Dense(a, SC(3), 'ij,j->i')),
        'E': (((2, 2),), lambda a: Dense(a, SC(2, 3), 'ij,j...->i...')),
        'D': (((3,),), lambda d: DiagonalOperator(d, in_structure=SC(3))),
        'Bd': (((2, 3),), lambda d: BroadcastDiagonalOperator(d, axis_destination=-1, in_structure=SC(3))),
        'k': (((),), lambda k: HomothetyOperator(k, SC(3))),
        'I3': ((), lambda: IdentityOperator(SC(3))),
        'P': ((), lambda: IndexOperator(IDX, in_structure=SC(3))),
        'U': ((), lambda: IndexOperator(UIDX, in_structure=SC(3), unique_indices=True)),
        'Pp': ((), lambda: IndexOperator(jnp.array([2, 0, 1]), in_structure=SC(3))),
        'Rs': ((), lambda: ReshapeOperator((3, 1), in_structure=SC(3))),
        'Mv': ((), lambda: MoveAxisOperator(0, 1, in_structure=SC(2, 3))),
        'Dt': (((3,),), lambda d: DiagonalOperator(d, in_structure={'a': SC(3), 'b': SC(2, 3)})),
        # complex parameters on a REAL input structure: the output dtype (complex) is wider than the input dtype
        'Pr': ((), lambda: IndexOperator(jnp.array([2, 0, 1]), in_structure=S(3))),
        'Ar': (((3, 3),), lambda a: Dense(a, S(3), 'ij,j->i')),
        'Wr': (((2, 3),), lambda a: Dense(a, S(3), 'ij,j->i')),
        'Bdr': (((2, 3),), lambda d: BroadcastDiagonalOperator(d, axis_destination=-1, in_structure=S(3))),
        'Etr': (((2, 2),), lambda a: Dense(a, {'a': S(2), 'b': S(2, 3)}, 'ij,j...->i...')),
    }


def leaf_names(e, acc=None):
    acc = [] if acc is None else acc
    if e[0] == 'leaf':
        acc.append(e[1])
    elif e[0] in ('T',):
        leaf_names(e[1], acc)
    elif e[0] in ('@', '+'):
        leaf_names(e[1], acc)
        leaf_names(e[2], acc)
    else:
        for c in e[1]:
            leaf_names(c, acc)
    return acc


def param_structs(e):
    L = _leaves()
    return [S(*sh) for n in leaf_names(e) for sh in L[n][0]]


def build(e, re, im):
    """Builds the operator from lists of real / imaginary parameter arrays (consumed in leaf order)."""
    from furax._base.blocks import BlockColumnOperator, BlockDiagonalOperator, BlockRowOperator
    L = _leaves()
    it = iter(zip(re, im))

    def go(e):
        if e[0] == 'leaf':
            shapes, ctor = L[e[1]]
            ps = [lax.complex(jnp.asarray(r), jnp.asarray(i)) for r, i in (next(it) for _ in shapes)]
            return ctor(*ps)
        if e[0] == 'T':
            return go(e[1]).T
        if e[0] == '@':
            a = go(e[1])
            return a @ go(e[2])
        if e[0] == '+':
            a = go(e[1])
            return a + go(e[2])
        ops = [go(c) for c in e[1]]
        return {'row': BlockRowOperator, 'col': BlockColumnOperator, 'diag': BlockDiagonalOperator}[e[0]](ops)
    return go(e)


def show(e):
    if e[0] == 'leaf':
        return e[1]
    if e[0] == 'T':
        return f'({show(e[1])}).T'
    if e[0] in ('@', '+'):
        return f'({show(e[1])} {e[0]} {show(e[2])})'
    return f'{e[0]}[' + ', '.join(show(c) for c in e[1]) + ']'


def real_input_expressions():
    """Complex parameters on real input structures (C04 only: the lazy transpose of such a map is not an adjoint over C)."""
    lf = lambda n: ('leaf', n)  # noqa: E731
    return [lf('Ar'), lf('Wr'), lf('Bdr'), lf('Etr'), ('@', lf('W'), lf('Ar')), ('@', lf('Bd'), lf('Ar')), ('+', lf('Ar'), lf('Ar')),
            ('col', (lf('Ar'), lf('Wr'))), ('@', lf('Ar'), lf('Pr'))]


def expressions(tier):
    lf = lambda n: ('leaf', n)  # noqa: E731
    base = [lf(n) for n in ('A', 'W', 'E', 'D', 'Bd', 'k', 'I3', 'P', 'U', 'Rs', 'Mv', 'Dt')]
    out = list(base) + [('T', b) for b in base] + [('T', ('T', b)) for b in base[:6]]
    comps = [('@', lf('A'), lf('D')), ('@', lf('W'), lf('A')), ('+', lf('A'), lf('D')), ('@', lf('k'), lf('A')), ('@', lf('P'), lf('A')),
             ('@', lf('A'), ('T', lf('P'))), ('@', ('T', lf('Bd')), lf('Bd')), ('@', lf('A'), ('@', lf('B'), lf('D'))),
             ('row', (lf('A'), lf('D'))), ('col', (lf('A'), lf('W'))), ('diag', (lf('A'), lf('Bd'))), ('+', ('T', lf('A')), lf('B')),
             ('@', ('T', lf('W')), lf('W')), ('@', lf('Rs'), lf('A'))]
    out += comps + [('T', c) for c in comps]
    if tier == 'thorough':
        more = [('@', a, b) for a in base[:7] for b in base[:7]] + [('+', a, b) for a in base[:7] for b in base[:7]]
        out += more + [('T', m) for m in more]
    seen, res = set(), []
    for e in out:
        k = repr(e)
        if k not in seen:
            seen.add(k)
            res.append(e)
    return res


def _real_struct(st):
    return jax.tree.map(lambda l: S(*l.shape), st)


def _cargs(name, st):
    rs = _real_struct(st)
    return [(name + 'r', rs, 'sym'), (name + 'i', rs, 'sym')]


def _cx(r, i):
    return jax.tree.map(lax.complex, r, i)


def _xin(r, i, st):
    """The input value for structure st: complex(r, i) on complex leaves, r alone on real leaves."""
    return jax.tree.map(lambda a, b, l: lax.complex(a, b) if jnp.issubdtype(l.dtype, jnp.complexfloating) else a, r, i, st)


def _flat(t):
    return jnp.concatenate([l.ravel() for l in jax.tree.leaves(t)])


def _prepare(e):
    n = len(param_structs(e))
    try:
        op0 = build(e, [np.ones(s.shape) for s in param_structs(e)], [np.ones(s.shape) for s in param_structs(e)])
        xin, yout = op0.in_structure(), op0.out_structure()
    except ValueError as ex:
        return None, skipped(f'ill-typed: {str(ex)[:60]}')
    return (op0, xin, yout, n), None


def _finish(ctx, dec, res, e, what, twin=False, prefix='cplx'):
    common = dict(prims=sorted(ctx.prims), **dec.stats())
    nob = common.pop('obligations')
    bad = [(n, r) for n, r in res if r.status != 'unsat']
    if not bad:
        return ok(obligations=nob, nontrivial=True, sample=dict(operator=show(e), field='Q(i)', checks=[n for n, _ in res], verdict='unsat'), **common)
    if any(r.status == 'unknown' for _, r in bad):
        return inconclusive('solver unknown', obligations=nob, **common)
    n, r = bad[0]
    return violation(f'{n} fails for the complex-valued operator {show(e)}', model=r.model, signature=f'{prefix}-{n}:{show(e)}', kind=n, twin=twin, obligations=nob, **common)


def check_adjoint(e, twin=False):
    """C03 on complex data: sum(A x * y) == sum(x * A.T y) (bilinear: the transpose does not conjugate), structures swapped, A.T.T acts as A."""
    prep, sk = _prepare(e)
    if sk:
        return sk
    op0, xin, yout, n = prep
    t0 = op0.T
    if not structs_equal(t0.in_structure(), yout) or not structs_equal(t0.out_structure(), xin):
        return violation(f'({show(e)}).T has structures {describe_struct(t0.in_structure())} -> {describe_struct(t0.out_structure())}', signature=f'cplx-Tstruct:{show(e)}', kind='struct')
    ctx = E.Ctx()
    ctx.field = Field.get(4)
    dec = Decider()
    ps = param_structs(e)
    pargs = [('pr', ps, 'sym'), ('pi', ps, 'sym')]

    def lhs(pr, pi, xr, xi, yr, yi):
        op = build(e, pr, pi)
        return jnp.sum(_flat(op.mv(_cx(xr, xi))) * _flat(_cx(yr, yi)))

    def rhs(pr, pi, xr, xi, yr, yi):
        op = build(e, pr, pi)
        y = _cx(yr, yi)
        if twin:
            y = jax.tree.map(jnp.conj, y)
        return jnp.sum(_flat(_cx(xr, xi)) * _flat(op.T.mv(y)))

    def tt(pr, pi, xr, xi):
        return build(e, pr, pi).T.T.mv(_cx(xr, xi))

    def plain(pr, pi, xr, xi):
        return build(e, pr, pi).mv(_cx(xr, xi))
    args = pargs + _cargs('x', xin) + _cargs('y', yout)
    a, _, _ = E.run(ctx, lhs, args)
    b, _, _ = E.run(ctx, rhs, args)
    res = [('adjoint identity', dec.decide(ctx, pairs(a, b, ctx)))]
    c, cs, _ = E.run(ctx, tt, pargs + _cargs('x', xin))
    d, _, _ = E.run(ctx, plain, pargs + _cargs('x', xin))
    if not structs_equal(cs, yout):
        return violation(f'({show(e)}).T.T maps to {describe_struct(cs)}, declared {describe_struct(yout)}', signature=f'cplx-TTstruct:{show(e)}', kind='struct')
    res.append(('T.T acts as the operator', dec.decide(ctx, pairs(c, d, ctx))))
    return _finish(ctx, dec, res, e, 'adjoint', twin, prefix='cplx-adj')


def check_dense(e, twin=False):
    """C04 on complex data: op(a x + b y) = a op(x) + b op(y) for complex a, b; op(x) == as_matrix() @ flatten(x) (override and generic)."""
    from furax._base.core import AbstractLinearOperator
    prep, sk = _prepare(e)
    if sk:
        return sk
    op0, xin, yout, n = prep
    ctx = E.Ctx()
    ctx.field = Field.get(4)
    dec = Decider()
    ps = param_structs(e)
    pargs = [('pr', ps, 'sym'), ('pi', ps, 'sym')]
    sc = S()
    sargs = [('ar', sc, 'sym'), ('ai', sc, 'sym'), ('br', sc, 'sym'), ('bi', sc, 'sym')]
    real_in = not any(jnp.issubdtype(l.dtype, jnp.complexfloating) for l in jax.tree.leaves(xin))

    def lin_l(pr, pi, ar, ai, br, bi, xr, xi, yr, yi):
        op = build(e, pr, pi)
        a, b = lax.complex(ar, ai), lax.complex(br, bi)
        if real_in:
            a, b = ar, br      # a real input space is only closed under real combinations
        return _flat(op.mv(jax.tree.map(lambda u, v: a * u + b * v, _xin(xr, xi, xin), _xin(yr, yi, xin))))

    def lin_r(pr, pi, ar, ai, br, bi, xr, xi, yr, yi):
        op = build(e, pr, pi)
        a, b = lax.complex(ar, ai), lax.complex(br, bi)
        if real_in:
            a, b = ar, br
        return _flat(jax.tree.map(lambda u, v: a * u + b * v, op.mv(_xin(xr, xi, xin)), op.mv(_xin(yr, yi, xin))))
    args = pargs + sargs + _cargs('x', xin) + _cargs('y', xin)
    l, _, _ = E.run(ctx, lin_l, args)
    r, _, _ = E.run(ctx, lin_r, args)
    res = [('complex linearity', dec.decide(ctx, pairs(l, r, ctx)))]
    mvx, _, _ = E.run(ctx, lambda pr, pi, xr, xi: _flat(build(e, pr, pi).mv(_xin(xr, xi, xin))), pargs + _cargs('x', xin))
    nin, nout = op0.in_size(), op0.out_size()
    for name, f in (('as_matrix override', lambda op: op.as_matrix()), ('generic as_matrix', lambda op: AbstractLinearOperator.as_matrix(op))):
        if name == 'as_matrix override' and type(op0).as_matrix is AbstractLinearOperator.as_matrix:
            continue

        def dense(pr, pi, xr, xi, f=f):
            M = f(build(e, pr, pi))
            x = _flat(_xin(xr, xi, xin))
            if twin:
                M = jnp.conj(M)
            return M @ x
        try:
            ms = jax.eval_shape(lambda: f(op0))
        except Exception as ex:  # noqa: BLE001
            return violation(f'{name} of {show(e)} raises {type(ex).__name__}: {str(ex)[:100]}', signature=f'cplx-dense-raises:{name}:{show(e)}', kind='raises')
        if tuple(ms.shape) != (nout, nin):
            return violation(f'{name} of {show(e)} has shape {ms.shape}, expected {(nout, nin)}', signature=f'cplx-shape:{name}:{show(e)}', kind='shape')
        g, _, _ = E.run(ctx, dense, pargs + _cargs('x', xin))
        res.append((name, dec.decide(ctx, pairs(g, mvx, ctx))))
    return _finish(ctx, dec, res, e, 'dense', twin, prefix='cplx-dense')


def _concrete(e, model):
    ps = param_structs(e)
    pr, pi = model_tree(model, 'pr', ps), model_tree(model, 'pi', ps)
    return build(e, [np.asarray(a) for a in pr], [np.asarray(a) for a in pi])


def _cmodel(model, name, st):
    rs = _real_struct(st)
    r, i = model_tree(model, name + 'r', rs), model_tree(model, name + 'i', rs)
    return jax.tree.map(lambda a, b, l: jnp.asarray(np.asarray(a) + 1j * np.asarray(b), C128) if jnp.issubdtype(l.dtype, jnp.complexfloating)
                        else jnp.asarray(np.asarray(a), l.dtype), r, i, st)


def replay(e, model, kind, twin=False):
    """Re-executes the failing identity on the real library with the complex values of the solver's model."""
    from furax._base.core import AbstractLinearOperator
    op = _concrete(e, model)
    xin, yout = op.in_structure(), op.out_structure()
    x = _cmodel(model, 'x', xin)
    tol = lambda a, b: bool(np.allclose(np.asarray(a), np.asarray(b), rtol=1e-8, atol=1e-9))  # noqa: E731
    if kind == 'adjoint identity':
        y = _cmodel(model, 'y', yout)
        yy = jax.tree.map(jnp.conj, y) if twin else y
        lhs = complex(jnp.sum(_flat(op.mv(x)) * _flat(y)))
        rhs = complex(jnp.sum(_flat(x) * _flat(op.T.mv(yy))))
        return abs(lhs - rhs) > 1e-8 * max(1.0, abs(lhs)), f'<A x, y> = {lhs}, <x, A.T y> = {rhs} for {show(e)}'
    if kind == 'T.T acts as the operator':
        a, b = _flat(op.T.T.mv(x)), _flat(op.mv(x))
        return (not tol(a, b)), f'T.T.mv(x) = {np.asarray(a)} vs mv(x) = {np.asarray(b)}'
    if kind == 'complex linearity':
        y = _cmodel(model, 'y', xin)
        sc = lambda n: float(model_tree(model, n, S()))  # noqa: E731
        a, b = complex(sc('ar'), sc('ai')), complex(sc('br'), sc('bi'))
        if not any(jnp.issubdtype(l_.dtype, jnp.complexfloating) for l_ in jax.tree.leaves(xin)):
            a, b = a.real, b.real
        l = _flat(op.mv(jax.tree.map(lambda u, v: a * u + b * v, x, y)))
        r = _flat(jax.tree.map(lambda u, v: a * u + b * v, op.mv(x), op.mv(y)))
        return (not tol(l, r)), f'op(a x + b y) = {np.asarray(l)} vs a op(x) + b op(y) = {np.asarray(r)}'
    if kind in ('as_matrix override', 'generic as_matrix'):
        M = op.as_matrix() if kind == 'as_matrix override' else AbstractLinearOperator.as_matrix(op)
        if twin:
            M = jnp.conj(M)
        a, b = M @ _flat(x), _flat(op.mv(x))
        return (not tol(a, b)), f'{kind}() @ x = {np.asarray(a)} but op(x) = {np.asarray(b)} for {show(e)}'
    return False, f'unknown kind {kind}'


# ---- C02 on complex data: the dunder methods against plain arithmetic of the operands' own mv -----------------------------------
ARITH = ('add', 'sub', 'neg', 'kmul', 'mulk', 'matmul', 'kmul_comp')


def arith_cases():
    lf = lambda n: ('leaf', n)  # noqa: E731
    sq = ['A', 'B', 'D', 'k', 'I3', 'Pp']
    out = []
    for a in sq:
        out += [('neg', lf(a), None), ('kmul', lf(a), None), ('mulk', lf(a), None)]
        for b in sq:
            out += [('add', lf(a), lf(b)), ('sub', lf(a), lf(b)), ('matmul', lf(a), lf(b))]
    out += [('matmul', lf('W'), lf('A')), ('matmul', lf('Bd'), lf('D')), ('kmul', lf('W'), None), ('kmul_comp', lf('W'), lf('A')),
            ('kmul_comp', lf('A'), lf('D')), ('add', lf('W'), lf('W')), ('sub', lf('Bd'), lf('Bd'))]
    return [c for c in out if 'Pp' not in repr(c) or c[0] in ('matmul', 'add', 'sub')]


def check_arith(case, twin=False):
    """(A op B)(x) equals the same arithmetic on A(x), B(x) for complex-valued operands and a complex symbolic scalar k."""
    what, e1, e2 = case
    es = [e for e in (e1, e2) if e is not None]
    ps = [param_structs(e) for e in es]
    try:
        ops0 = [build(e, [np.ones(s.shape) for s in p], [np.ones(s.shape) for s in p]) for e, p in zip(es, ps)]
        xin = ops0[-1].in_structure()
    except ValueError as ex:
        return skipped(f'ill-typed: {str(ex)[:60]}')
    ctx = E.Ctx()
    ctx.field = Field.get(4)
    dec = Decider()
    sc = S()
    args = [(f'p{i}r', p, 'sym') for i, p in enumerate(ps)] + [(f'p{i}i', p, 'sym') for i, p in enumerate(ps)]
    args += [('kr', sc, 'sym'), ('ki', sc, 'sym')] + _cargs('x', xin)
    n = len(es)

    def parts(vals):
        pr, pi = vals[:n], vals[n:2 * n]
        kr, ki, xr, xi = vals[2 * n:]
        return [build(e, r, i) for e, r, i in zip(es, pr, pi)], lax.complex(kr, ki), _cx(xr, xi)

    def real(*vals):
        ops, k, x = parts(vals)
        a = ops[0]
        b = ops[1] if n > 1 else None
        if what == 'add':
            op = a + b
        elif what == 'sub':
            op = a - b
        elif what == 'neg':
            op = -a
        elif what == 'kmul':
            op = k * a
        elif what == 'mulk':
            op = a * k
        elif what == 'matmul':
            op = a @ b
        else:
            op = k * (a @ b)
        return _flat(op.mv(x))

    def oracle(*vals):
        ops, k, x = parts(vals)
        a = ops[0]
        b = ops[1] if n > 1 else None
        tm = jax.tree.map
        if what == 'add':
            r = tm(lambda u, v: u + v, a.mv(x), b.mv(x))
        elif what == 'sub':
            r = tm(lambda u, v: (v - u) if twin else (u - v), a.mv(x), b.mv(x))
        elif what == 'neg':
            r = tm(lambda u: -u, a.mv(x))
        elif what in ('kmul', 'mulk'):
            r = tm(lambda u: (jnp.conj(k) if twin else k) * u, a.mv(x))
        elif what == 'matmul':
            r = a.mv(b.mv(x))
        else:
            r = tm(lambda u: k * u, a.mv(b.mv(x)))
        return _flat(r)
    try:
        got, _, _ = E.run(ctx, real, args)
    except ValueError as ex:
        return skipped(f'ill-typed: {str(ex)[:60]}')
    want, _, _ = E.run(ctx, oracle, args)
    res = [(f'{what} on complex operands', dec.decide(ctx, pairs(got, want, ctx)))]
    common = dict(prims=sorted(ctx.prims), **dec.stats())
    nob = common.pop('obligations')
    r = res[0][1]
    label = f'{what}({show(e1)}' + (f', {show(e2)})' if e2 is not None else ')')
    if r.status == 'unsat':
        return ok(obligations=nob, nontrivial=True, sample=dict(expression=label, field='Q(i)', verdict='unsat'), **common)
    if r.status == 'unknown':
        return inconclusive('solver unknown', obligations=nob, **common)
    return violation(f'{label} on complex-valued operands differs from the arithmetic of the operands', model=r.model, signature=f'cplx-arith:{label}',
                     kind='cplx-arith', twin=twin, obligations=nob, **common)


def replay_arith(case, model, twin=False):
    what, e1, e2 = case
    es = [e for e in (e1, e2) if e is not None]
    ops = []
    for i, e in enumerate(es):
        ps = param_structs(e)
        pr, pi = model_tree(model, f'p{i}r', ps), model_tree(model, f'p{i}i', ps)
        ops.append(build(e, [np.asarray(a) for a in pr], [np.asarray(a) for a in pi]))
    k = complex(float(model_tree(model, 'kr', S())), float(model_tree(model, 'ki', S())))
    x = _cmodel(model, 'x', ops[-1].in_structure())
    a = ops[0]
    b = ops[1] if len(ops) > 1 else None
    tm = jax.tree.map
    if what == 'add':
        got, want = (a + b).mv(x), tm(lambda u, v: u + v, a.mv(x), b.mv(x))
    elif what == 'sub':
        got, want = (a - b).mv(x), tm(lambda u, v: (v - u) if twin else (u - v), a.mv(x), b.mv(x))
    elif what == 'neg':
        got, want = (-a).mv(x), tm(lambda u: -u, a.mv(x))
    elif what == 'kmul':
        got, want = (k * a).mv(x), tm(lambda u: (np.conj(k) if twin else k) * u, a.mv(x))
    elif what == 'mulk':
        got, want = (a * k).mv(x), tm(lambda u: (np.conj(k) if twin else k) * u, a.mv(x))
    elif what == 'matmul':
        got, want = (a @ b).mv(x), a.mv(b.mv(x))
    else:
        got, want = (k * (a @ b)).mv(x), tm(lambda u: k * u, a.mv(b.mv(x)))
    g, w = np.asarray(_flat(got)), np.asarray(_flat(want))
    return (not np.allclose(g, w, rtol=1e-8, atol=1e-9)), f'{what}: library gives {g}, arithmetic of the operands gives {w} (k = {k})'


# ---- complex scalars on REAL operators (C01: reduce() keeps the map; scalars are merged and moved by HomothetyRule) --------------
def mixed_cases():
    return ['k*P', 'W@H', 'D@H@D', '2*(A*k)', 'D-T@(k*W)', 'diag[D-T@(k*W),3*D]', '(k*W).T', 'k*(W@T)', '(k*A)@(l*D)', 'T@(k*W)@(l*T)', 'k*row[A,D]', 'col[A,W]@(k*D)']


def _mixed_build(name, p, k, l):
    """Real operators from the real parameter arrays p (dict), complex scalars k, l (0-d complex arrays)."""
    from furax._base.blocks import BlockColumnOperator, BlockDiagonalOperator, BlockRowOperator
    from furax._base.core import HomothetyOperator
    from furax._base.dense import DenseBlockDiagonalOperator as Dense
    from furax._base.diagonal import DiagonalOperator
    from furax._base.indices import IndexOperator
    s3, s2 = S(3), S(2)
    A = Dense(p['A'], s3, 'ij,j->i')
    W = Dense(p['W'], s3, 'ij,j->i')          # 3 -> 2
    T = Dense(p['T'], s2, 'ij,j->i')          # 2 -> 3
    D = DiagonalOperator(p['D'], in_structure=s3)
    P = IndexOperator(jnp.array([0, 1, 2, 0, 1]), in_structure=s3)   # 3 -> 5 (tall)
    if name == 'k*P':
        return k * P
    if name == 'W@H':
        return W @ HomothetyOperator(k, s3)
    if name == 'D@H@D':
        return D @ HomothetyOperator(k, s3) @ D
    if name == '2*(A*k)':
        return 2 * (A * k)
    if name == 'D-T@(k*W)':
        return D - T @ (k * W)
    if name == 'diag[D-T@(k*W),3*D]':
        return BlockDiagonalOperator([D - T @ (k * W), 3 * D])
    if name == '(k*W).T':
        return (k * W).T
    if name == 'k*(W@T)':
        return k * (W @ T)
    if name == '(k*A)@(l*D)':
        return (k * A) @ (l * D)
    if name == 'T@(k*W)@(l*T)':
        return T @ (k * W) @ (l * T)
    if name == 'k*row[A,D]':
        return k * BlockRowOperator([A, D])
    if name == 'col[A,W]@(k*D)':
        return BlockColumnOperator([A, W]) @ (k * D)
    raise ValueError(name)


MIXED_PARAMS = {'A': S(3, 3), 'W': S(2, 3), 'T': S(3, 2), 'D': S(3)}


def check_mixed_reduce(name, twin=False):
    ctx = E.Ctx()
    ctx.field = Field.get(4)
    dec = Decider()
    sc = S()
    op0 = _mixed_build(name, {n: np.ones(s.shape) for n, s in MIXED_PARAMS.items()}, jnp.asarray(1 + 2j), jnp.asarray(2 - 1j))
    xin = op0.in_structure()
    args = [('p', MIXED_PARAMS, 'sym'), ('kr', sc, 'sym'), ('ki', sc, 'sym'), ('lr', sc, 'sym'), ('li', sc, 'sym'), ('x', xin, 'sym')]

    def run(reduce):
        def f(p, kr, ki, lr, li, x):
            k = lax.complex(kr, -ki if (twin and reduce) else ki)
            op = _mixed_build(name, p, k, lax.complex(lr, li))
            return _flat((op.reduce() if reduce else op).mv(x))
        return f
    a, _, _ = E.run(ctx, run(False), args)
    b, _, _ = E.run(ctx, run(True), args)
    red0 = op0.reduce()
    shp = lambda st: [tuple(l.shape) for l in jax.tree.leaves(st)]  # noqa: E731
    if shp(red0.in_structure()) != shp(op0.in_structure()) or jax.tree.structure(red0.in_structure()) != jax.tree.structure(op0.in_structure()):
        return violation(f'reduce() of {name} changes the input structure', signature=f'cplx-mixed-struct:{name}', kind='struct')
    r = dec.decide(ctx, pairs(a, b, ctx))
    common = dict(prims=sorted(ctx.prims), **dec.stats())
    nob = common.pop('obligations')
    if r.status == 'unsat':
        return ok(obligations=nob, nontrivial=True, sample=dict(expression=name, note='complex scalars on real operators, reduce() vs unreduced', verdict='unsat'), **common)
    if r.status == 'unknown':
        return inconclusive('solver unknown', obligations=nob, **common)
    return violation(f'reduce() changes the map of {name} (complex scalar k on real-valued operators)', model=r.model, signature=f'cplx-mixed:{name}', kind='cplx-mixed',
                     twin=twin, obligations=nob, **common)


def replay_mixed(name, model, twin=False):
    p = model_tree(model, 'p', MIXED_PARAMS)
    sc = lambda n: float(model_tree(model, n, S()))  # noqa: E731
    k, l = complex(sc('kr'), sc('ki')), complex(sc('lr'), sc('li'))
    op = _mixed_build(name, p, jnp.asarray(k), jnp.asarray(l))
    x = model_tree(model, 'x', op.in_structure())
    a = np.asarray(_flat(op.mv(x)))
    opr = _mixed_build(name, p, jnp.asarray(np.conj(k) if twin else k), jnp.asarray(l)).reduce()
    b = np.asarray(_flat(opr.mv(x)))
    return (not np.allclose(a, b, rtol=1e-8, atol=1e-9)), f'{name} with k = {k}, l = {l}: unreduced gives {a}, reduce() gives {b}'
