"""Common machinery of all checks: parallel case runner, replay, known findings, evidence, exit codes.

A check module (fxv/checks/cNN.py) provides

    ID, TITLE, LEVEL, TECHNIQUE, EXPLANATION, FUNCTIONS, BOUNDS, STUBS, ASSUMPTIONS, RULE
    cases(tier, seed)        -> list of picklable case keys (each decided independently)
    run_case(key)            -> dict, see ``ok``/``violation``/``inconclusive`` below
    replay(key, model, info) -> (reproduced: bool, message: str)   concrete re-execution on the
                                 real library; a solver model that does not reproduce is never
                                 reported as a violation
    twins()                  -> list of case keys that MUST come back 'violation' (vacuity guard)

Exit codes: 0 = property held on everything explored (KNOWN-FINDING lines allowed),
1 = VIOLATION printed (replayed and not listed), 2 = harness error (twin did not fail, or so many
cases were inconclusive that the run says nothing).
"""
from __future__ import annotations

import argparse
import hashlib
import importlib
import json
import os
import signal
import sys
import time
import traceback

VERIF = os.path.dirname(os.path.dirname(os.path.abspath(__file__)))
MAX_VIOLATIONS = int(os.environ.get('VERIF_MAX_VIOLATIONS', '12'))


# ------------------------------------------------------------------------------------------------
# result constructors used by run_case


def ok(obligations=1, nontrivial=True, solver_s=0.0, sample=None, **extra):
    return dict(status='ok', obligations=obligations, discharged=obligations, nontrivial=nontrivial,
                solver_s=solver_s, sample=sample, **extra)


def violation(what, model=None, signature=None, obligations=1, discharged=0, solver_s=0.0, **extra):
    return dict(status='violation', what=what, model=_jsonable(model or {}), signature=signature,
                obligations=obligations, discharged=discharged, nontrivial=True, solver_s=solver_s,
                **extra)


def inconclusive(why, obligations=1, discharged=0, solver_s=0.0, **extra):
    return dict(status='inconclusive', why=why, obligations=obligations, discharged=discharged,
                nontrivial=False, solver_s=solver_s, **extra)


def skipped(why):
    return dict(status='skipped', why=why, obligations=0, discharged=0, nontrivial=False, solver_s=0.0)


def _jsonable(o):
    from fractions import Fraction
    if isinstance(o, dict):
        return {str(k): _jsonable(v) for k, v in o.items()}
    if isinstance(o, (list, tuple)):
        return [_jsonable(v) for v in o]
    if isinstance(o, Fraction):
        return str(o)
    if isinstance(o, (str, int, float, bool)) or o is None:
        return o
    return repr(o)


def model_float(model, name, default=None):
    from fractions import Fraction
    v = model.get(name)
    if v is None:
        return default
    return float(Fraction(v)) if isinstance(v, str) else float(v)


# ------------------------------------------------------------------------------------------------
# worker side


class CaseTimeout(BaseException):
    """Raised by SIGALRM; a BaseException so that `except Exception` in checks cannot swallow it."""


def _alarm(signum, frame):
    raise CaseTimeout()


def _reduce_frames(tb):
    """Name of the furax reduction-driver frame a traceback passes through (None if it does not)."""
    hit = None
    while tb is not None:
        code = tb.tb_frame.f_code
        if code.co_filename.endswith(os.path.join('furax', '_base', 'rules.py')) and code.co_name == 'apply':
            hit = f'{os.path.basename(code.co_filename)}:{code.co_name}'
        tb = tb.tb_next
    return hit


def _furax_frame(tb):
    """'file:function' of the innermost traceback frame that lies in the furax sources (None if there is none)."""
    hit = None
    while tb is not None:
        code = tb.tb_frame.f_code
        fn = code.co_filename.replace(os.sep, '/')
        if '/furax/' in fn and '/fxv/' not in fn and '/site-packages/' not in fn:
            hit = f'{fn.split("/furax/")[-1]}:{code.co_name}'
        tb = tb.tb_next
    return hit


def _replay_raises(mod, key, expected):
    try:
        mod.run_case(key)
    except BaseException as ex:  # noqa: BLE001
        where = _furax_frame(ex.__traceback__)
        same = where is not None and f'raises:{type(ex).__name__}:{where}' == expected
        return same, f'{type(ex).__name__}: {str(ex)[:160]} raised again in {where}'
    return False, 'the case completed on replay'


def _replay_nonterm(mod, key, limit):
    signal.signal(signal.SIGALRM, _alarm)
    signal.alarm(int(limit))
    try:
        mod.run_case(key)
    except CaseTimeout as ex:
        where = _reduce_frames(ex.__traceback__)
        return (where is not None), f'timed out again after {limit}s' + (f' inside {where}' if where else ' (outside the reduction driver)')
    finally:
        signal.alarm(0)
    return False, 'the case completed on replay'


def _work(job):
    modname, key, per_case_timeout = job
    t0 = time.time()
    try:
        import fxv.env  # noqa: F401
        from fxv.interp import OutOfBounds, Unsupported
        mod = importlib.import_module(modname)
        signal.signal(signal.SIGALRM, _alarm)
        signal.alarm(int(per_case_timeout))
        try:
            res = mod.run_case(key)
        finally:
            signal.alarm(0)
    except CaseTimeout as ex:
        where = _reduce_frames(ex.__traceback__)
        if where:
            # the time limit expired inside furax's reduction driver: candidate non-termination of reduce()
            res = violation(f'reduce() did not return within {per_case_timeout}s (stuck in {where})',
                            signature='nontermination:reduce', kind='nonterm')
        else:
            res = inconclusive(f'case exceeded {per_case_timeout}s')
    except BaseException as ex:  # noqa: BLE001
        name = type(ex).__name__
        if name in ('Unsupported', 'OutOfBounds', 'NonFinite'):
            res = inconclusive(f'{name}: {ex}')
        else:
            where = _furax_frame(ex.__traceback__)
            if where and not isinstance(ex, (KeyboardInterrupt, SystemExit, MemoryError)):
                # the real library raised while a check was exercising it: violation candidate, replayed by re-running the case
                res = violation(f'the library raises {name}: {str(ex)[:200]} (in {where}) while the check applies the operator',
                                signature=f'raises:{name}:{where}', kind='raises-in-furax')
                res['tb'] = traceback.format_exc()[-1500:]
            else:
                res = dict(status='error', why=f'{name}: {ex}', tb=traceback.format_exc()[-2000:],
                           obligations=1, discharged=0, nontrivial=False, solver_s=0.0)
    res['key'] = key
    res['wall_s'] = time.time() - t0
    return res


# ------------------------------------------------------------------------------------------------
# known findings


def load_known(prop):
    path = os.path.join(VERIF, 'known_findings.jsonl')
    findings, fixed = [], []
    if os.path.exists(path):
        for line in open(path):
            line = line.strip()
            if not line or line.startswith('#'):
                continue
            rec = json.loads(line)
            if rec.get('property') != prop:
                continue
            (findings if rec.get('kind') == 'finding' else fixed).append(rec)
    return findings, fixed


# ------------------------------------------------------------------------------------------------
# driver


def run_check(mod, argv=None):
    ap = argparse.ArgumentParser(prog=f'check {mod.ID}')
    ap.add_argument('--tier', default=os.environ.get('VERIF_TIER', 'quick'), choices=['quick', 'thorough'])
    ap.add_argument('--replay', default=None)
    ap.add_argument('--jobs', type=int, default=int(os.environ.get('VERIF_JOBS', '0')) or min(16, os.cpu_count() or 4))
    ap.add_argument('--budget', type=float, default=None, help='wall-clock budget in seconds')
    ap.add_argument('--only', default=None, help='substring filter on case keys (debugging)')
    ap.add_argument('--verbose', action='store_true')
    args = ap.parse_args(argv)
    seed = int(os.environ.get('VERIF_SEED', '0') or 0)
    if args.replay:
        return do_replay(mod, args.replay)
    t0 = time.time()
    tier = args.tier
    keys = list(mod.cases(tier, seed))
    if args.only:
        keys = [k for k in keys if args.only in repr(k)]
    twins = list(mod.twins()) if hasattr(mod, 'twins') and not args.only else []
    budget = args.budget or getattr(mod, 'BUDGET', {}).get(tier, 600 if tier == 'quick' else 3000)
    per_case = getattr(mod, 'CASE_TIMEOUT', {}).get(tier, 60 if tier == 'quick' else 300)
    jobs = [(mod.__name__, ('twin', k), per_case) for k in twins] + [(mod.__name__, k, per_case) for k in keys]
    known_sigs = {f['signature'] for f in load_known(mod.ID)[0]}
    results, not_reached = _dispatch(jobs, args.jobs, budget, t0, verbose=args.verbose, known_sigs=known_sigs)
    twin_res = [r for r in results if isinstance(r['key'], tuple) and r['key'] and r['key'][0] == 'twin']
    results = [r for r in results if r not in twin_res]
    return finish(mod, tier, seed, results, twin_res, not_reached, t0)


def _dispatch(jobs, nproc, budget, t0, verbose=False, known_sigs=()):
    import multiprocessing as mp
    results = []
    if not jobs:
        return results, 0
    nproc = max(1, min(nproc, len(jobs)))
    if nproc == 1:
        for j in jobs:
            if time.time() - t0 > budget:
                break
            results.append(_work(j))
        return results, len(jobs) - len(results)
    ctx = mp.get_context('spawn')
    pool = ctx.Pool(nproc)
    it = iter(jobs)
    submitted = 0
    inflight = []  # (job, AsyncResult, t_submit)
    exhausted = False
    try:
        while True:
            nviol = sum(1 for r in results if r['status'] == 'violation' and r.get('signature') not in known_sigs
                        and not (isinstance(r['key'], tuple) and r['key'][:1] == ('twin',)))
            if nviol >= MAX_VIOLATIONS:
                # enough counterexamples: stop exploring, abandon what is in flight, report them
                submitted -= len(inflight)
                break
            while not exhausted and len(inflight) < 2 * nproc and time.time() - t0 < budget:
                try:
                    j = next(it)
                except StopIteration:
                    exhausted = True
                    break
                inflight.append((j, pool.apply_async(_work, (j,)), time.time()))
                submitted += 1
            if not inflight:
                break
            still = []
            progressed = False
            for j, ar, ts in inflight:
                if ar.ready():
                    progressed = True
                    try:
                        r = ar.get()
                    except Exception as ex:  # noqa: BLE001
                        r = dict(status='error', why=f'worker failed: {type(ex).__name__}: {ex}', obligations=1,
                                 discharged=0, nontrivial=False, solver_s=0.0, key=j[1], wall_s=0.0)
                    results.append(r)
                    if verbose:
                        print('  ', r['status'], repr(r['key'])[:150], round(r['wall_s'], 2),
                              r.get('why', r.get('what', '')), flush=True)
                elif time.time() - ts > j[2] + 60 + 30 * 3:
                    r = inconclusive('worker did not answer in time (hung in native code?)')
                    r['key'] = j[1]
                    r['wall_s'] = time.time() - ts
                    results.append(r)
                    progressed = True
                else:
                    still.append((j, ar, ts))
            inflight = still
            if not progressed:
                time.sleep(0.02)
    finally:
        pool.terminate()
        pool.join()
    return results, len(jobs) - submitted


def finish(mod, tier, seed, results, twin_res, not_reached, t0):
    prop = mod.ID
    findings, fixed = load_known(prop)
    os.makedirs(os.path.join(VERIF, 'replays', prop), exist_ok=True)
    lines = []
    n_viol_new = 0
    known_hit = {}
    inconcl = [r for r in results if r['status'] == 'inconclusive']
    errors = [r for r in results if r['status'] == 'error']
    viols = [r for r in results if r['status'] == 'violation']
    confirmed = []
    tries = {}
    done_sigs = set()
    for r in viols:
        sig0 = r.get('signature') or repr(r['key'])
        if sig0 in done_sigs:
            continue  # same failure already reproduced: not replayed again
        if tries.get(sig0, 0) >= 3:
            r['status'] = 'inconclusive'
            r['why'] = 'not replayed (three models with this signature already failed to reproduce)'
            inconcl.append(r)
            continue
        tries[sig0] = tries.get(sig0, 0) + 1
        try:
            import fxv.env  # noqa: F401
            limit = getattr(mod, 'CASE_TIMEOUT', {}).get(tier, 60 if tier == 'quick' else 300)
            if r.get('kind') == 'nonterm':
                reproduced, msg = _replay_nonterm(mod, r['key'], min(limit, 30))
            elif r.get('kind') == 'raises-in-furax':
                reproduced, msg = _replay_raises(mod, r['key'], r.get('signature'))
            else:
                signal.signal(signal.SIGALRM, _alarm)
                signal.alarm(int(limit))
                try:
                    reproduced, msg = mod.replay(r['key'], r.get('model', {}), r)
                except CaseTimeout:
                    reproduced, msg = False, f'replay did not finish within {limit}s'
                finally:
                    signal.alarm(0)
        except Exception as ex:  # noqa: BLE001
            reproduced, msg = False, f'replay raised {type(ex).__name__}: {ex}'
        r['replay_msg'] = msg
        if not reproduced:
            r['status'] = 'inconclusive'
            r['why'] = f'solver model did not reproduce on the real library: {msg}'
            inconcl.append(r)
            continue
        confirmed.append(r)
        done_sigs.add(sig0)
    seen_sig = set()
    for r in confirmed:
        sig = r.get('signature') or repr(r['key'])
        match = next((f for f in findings if f['signature'] == sig), None)
        if match is not None:
            known_hit.setdefault(sig, (match, r))
            continue
        if sig in seen_sig:
            continue
        seen_sig.add(sig)
        h = hashlib.sha1(repr(r['key']).encode()).hexdigest()[:10]
        path = os.path.join(VERIF, 'replays', prop, f'{h}.json')
        with open(path, 'w') as f:
            json.dump(dict(property=prop, key=_jsonable(r['key']), key_repr=repr(r['key']), tier=tier, seed=seed,
                           what=r.get('what'), signature=sig, model=r.get('model', {}),
                           replay_msg=r.get('replay_msg'), kind=r.get('kind'), variant=r.get('variant'),
                           which=r.get('which'), twin=r.get('twin', False)), f, indent=1)
        lines.append(f'VIOLATION property={prop} replay={path}')
        print(f'# {r.get("what")} :: {r.get("replay_msg")}')
        n_viol_new += 1
    for sig, (match, r) in known_hit.items():
        print(f'KNOWN-FINDING: property={prop} {match.get("what", sig)}')
    # twins
    twin_fail = [r for r in twin_res if r['status'] != 'violation']
    for r in twin_fail:
        print(f'HARNESS-ERROR: must-fail twin {r["key"]!r} came back {r["status"]} ({r.get("why", "")})')
    for r in errors[:10]:
        print(f'HARNESS-ERROR: {r["key"]!r}: {r["why"]}\n{r.get("tb", "")}')
    for r in inconcl[:10]:
        print(f'INCONCLUSIVE: {r["key"]!r}: {r.get("why", "")}'[:400])
    decided = [r for r in results if r['status'] in ('ok', 'violation')]
    evaluations = len([r for r in results if r['status'] != 'skipped'])
    wall = time.time() - t0
    samples = []
    for r in results:
        if r.get('sample') is not None and len(samples) < 8:
            samples.append(r['sample'])
    if not samples:
        samples = [repr(r['key'])[:300] for r in results[:5]]
    obligations = sum(r.get('obligations', 0) for r in results)
    discharged = sum(r.get('discharged', 0) for r in results if r['status'] == 'ok')
    solver_s = sum(r.get('solver_s', 0.0) for r in results)
    nontrivial_keys = {repr(r['key']) for r in results if r.get('nontrivial') and r['status'] in ('ok', 'violation')}
    level = getattr(mod, 'LEVEL', 'other')
    prims = sorted({p for r in results for p in r.get('prims', [])})
    cov = dict(
        evaluations=evaluations,
        distinct_nontrivial=len(nontrivial_keys),
        rule=mod.RULE,
        samples=samples,
        obligations=obligations,
        discharged=discharged,
        inconclusive=len(inconcl),
        inconclusive_cases=[dict(case=repr(r['key'])[:160], why=str(r.get('why', ''))[:200]) for r in inconcl[:25]],
        harness_errors=len(errors),
        skipped=len([r for r in results if r['status'] == 'skipped']),
        not_reached_within_budget=not_reached,
        explanation=mod.EXPLANATION,
        functions_encoded=mod.FUNCTIONS,
        bounds=mod.BOUNDS[tier] if isinstance(mod.BOUNDS, dict) else mod.BOUNDS,
        stubs=getattr(mod, 'STUBS', []),
        solver=dict(name=getattr(mod, 'SOLVER_NAME', 'z3 (python API) + cvc5 cross-check of a subset'), z3=_z3_version(),
                    total_s=round(solver_s, 3),
                    max_s=round(max([r.get('solver_max_s', r.get('solver_s', 0.0)) for r in results] or [0.0]), 3),
                    cvc5_cross_checked=sum(r.get('cvc5_checked', 0) for r in results),
                    cvc5_disagreements=sum(r.get('cvc5_disagree', 0) for r in results)),
        primitives_seen=prims,
        twins_expected_to_fail=len(twin_res),
        twins_failed_as_expected=len(twin_res) - len(twin_fail),
        known_findings_matched=sorted(known_hit),
        programs=len(decided),
        disagreements_checked=len(viols),
        exhaustive=bool(getattr(mod, 'EXHAUSTIVE', {}).get(tier, False)) and not_reached == 0,
        trusted_base=['jax.make_jaxpr (IR of the real code)', 'real JAX primitives used for coefficient probing',
                      'fxv exact interpreter', 'z3 / cvc5'],
    )
    if hasattr(mod, 'extra_coverage'):
        cov.update(mod.extra_coverage(results))
    ev = dict(property_id=prop, tier=tier, seed=seed, level=level, coverage=cov,
              assumptions=list(getattr(mod, 'ASSUMPTIONS', [])), wall_s=round(wall, 2),
              violations=n_viol_new)
    evdir = os.environ.get('VERIF_EVIDENCE_DIR') or os.path.join(VERIF, 'evidence')  # self-tests redirect it
    os.makedirs(evdir, exist_ok=True)
    with open(os.path.join(evdir, f'{prop}.json'), 'w') as f:
        json.dump(ev, f, indent=1)
    try:
        os.makedirs(os.path.join(VERIF, '.work'), exist_ok=True)
        with open(os.path.join(VERIF, '.work', f'{prop}_{tier}.results.json'), 'w') as f:
            json.dump([_jsonable({k: v for k, v in r.items() if k not in ('prims',)}) for r in results
                       if r['status'] != 'ok'] , f, indent=0)
    except Exception:  # noqa: BLE001
        pass
    for l in lines:
        print(l)
    for r in inconcl[:5]:
        print(f'# INCONCLUSIVE property={prop} case={repr(r["key"])[:120]} why={str(r.get("why", ""))[:160]}')
    print(f'{prop} [{tier}] cases={evaluations} ok={len([r for r in results if r["status"] == "ok"])} '
          f'violations={n_viol_new} known={len(known_hit)} inconclusive={len(inconcl)} errors={len(errors)} '
          f'not_reached={not_reached} obligations={obligations} solver={solver_s:.1f}s wall={wall:.1f}s')
    if n_viol_new:
        return 1
    if twin_fail or errors:
        return 2
    if evaluations and len(inconcl) > 0.5 * evaluations:
        print('HARNESS-ERROR: more than half of the cases were inconclusive')
        return 2
    unsupported = [r for r in inconcl if str(r.get('why', '')).startswith(('Unsupported', 'OutOfBounds'))]
    if evaluations and len(unsupported) > 0.1 * evaluations:
        # the code under test lowers to something the interpreter cannot encode for a substantial part of the family:
        # "cannot decide" must not read as "held" (DESIGN 11.3)
        print(f'HARNESS-ERROR: the interpreter cannot encode {len(unsupported)} of {evaluations} cases ({unsupported[0].get("why", "")[:120]})')
        return 2
    if evaluations == 0:
        print('HARNESS-ERROR: nothing was explored')
        return 2
    return 0


def _z3_version():
    try:
        import z3
        return z3.get_version_string()
    except Exception:  # noqa: BLE001
        return '?'


def do_replay(mod, path):
    import ast
    rec = json.load(open(path))
    try:
        key = ast.literal_eval(rec['key_repr'])
    except Exception:  # noqa: BLE001
        key = rec['key']
    import fxv.env  # noqa: F401
    if rec.get('kind') == 'nonterm':
        reproduced, msg = _replay_nonterm(mod, key, 30)
    elif rec.get('kind') == 'raises-in-furax':
        reproduced, msg = _replay_raises(mod, key, rec.get('signature'))
    else:
        reproduced, msg = mod.replay(key, rec.get('model', {}), rec)
    print(('REPRODUCED: ' if reproduced else 'not reproduced: ') + msg)
    if reproduced:
        print(f'VIOLATION property={mod.ID} replay={path}')
        return 1
    return 0
