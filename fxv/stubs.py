"""Contract stubs (each one is part of the claim of the checks that install it).

``install_linear_solve_stub`` replaces ``lineax.linear_solve`` -- reached only through
``furax.InverseOperator.mv`` -- by two marker primitives.  The interpreter gives the solution fresh
atoms z and *assumes* the solver contract  A.mv(z) == b  where A is the real traced operator.  The
stub is functional: two solves with syntactically equal (operator, right-hand side) share their z.
Convergence of the iterative solver is therefore NOT decided by any check that uses this stub.
"""
from __future__ import annotations

import jax
import numpy as np
from jax.extend.core import Primitive

from . import interp as E
from .poly import Poly

solve_p = Primitive('fxsmt_solve')
solve_p.multiple_results = True
solve_p.def_abstract_eval(lambda *avals, n: list(avals[:n]))
assume_p = Primitive('fxsmt_assume_eq')
assume_p.multiple_results = True
assume_p.def_abstract_eval(lambda *avals, n: list(avals[:n]))

_installed = False
RECORD = []  # (solver, throw, options) of every stubbed call (used by C19)
ORIG = {}


def install_linear_solve_stub():
    global _installed
    if _installed:
        return
    import lineax as lx
    ORIG['linear_solve'] = lx.linear_solve

    def _stub_solve(matvec, rhs):
        """Contract: the returned z satisfies matvec(z) == rhs (fresh atoms, assumed equation)."""
        leaves, tdef = jax.tree.flatten(rhs)
        z = solve_p.bind(*leaves, n=len(leaves))
        zt = jax.tree.unflatten(tdef, z)
        r = jax.tree.leaves(matvec(zt))
        z2 = assume_p.bind(*z, *r, *leaves, n=len(leaves))
        return jax.tree.unflatten(tdef, z2)

    def stub_linear_solve(A, b, solver=None, *, options=None, state=None, throw=True, **kw):
        RECORD.append((solver, throw, options))
        # lax.custom_linear_solve gives the stub a transpose: (A^-1)^T y is "the z with A^T z == y"
        value = jax.lax.custom_linear_solve(A.mv, b, solve=_stub_solve, transpose_solve=_stub_solve)
        return lx.Solution(value=value, result=lx.RESULTS.successful, stats={}, state=None)

    lx.linear_solve = stub_linear_solve
    _installed = True


def _h_solve(eqn, ins, ctx):
    n = eqn.params['n']
    ctx.stub_solves += 1
    base = ctx.fresh('z')
    return [E.sym_array(f'{base}_{i}', np.shape(ins[i])) for i in range(n)]


def _rename(p, mapping):
    if not isinstance(p, Poly):
        return p
    t = {}
    for k, v in p.t.items():
        nk = tuple(sorted((mapping.get(a, a), e) for a, e in k))
        t[nk] = t.get(nk, 0) + v
    return Poly({k: v for k, v in t.items() if v != 0})


def _h_assume(eqn, ins, ctx):
    n = eqn.params['n']
    z, r, b = ins[:n], ins[n:2 * n], ins[2 * n:]
    zel = [e for a in z for e in E.to_obj(a, ctx).reshape(-1)]
    rel = [e for a in r for e in E.to_obj(a, ctx).reshape(-1)]
    bel = [e for a in b for e in E.to_obj(a, ctx).reshape(-1)]
    mapping = {}
    for i, e in enumerate(zel):
        (atom,) = e.atoms()
        mapping[atom] = f'Z#{i}'
    key = ('solve', tuple(_rename(e, mapping) for e in rel), tuple(bel))
    prev = ctx.memo.get(key)
    if prev is not None:
        return list(prev)
    ctx.memo[key] = list(z)
    for p, q in zip(rel, bel):
        ctx.eqs.append((p, q))
    return list(z)


E.SPECIAL['fxsmt_solve'] = _h_solve
E.SPECIAL['fxsmt_assume_eq'] = _h_assume
