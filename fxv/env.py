"""Process-wide JAX configuration for the engine.  Import before anything that imports jax."""
import os
import sys

os.environ.setdefault('JAX_PLATFORMS', 'cpu')
os.environ.setdefault('XLA_FLAGS', '--xla_cpu_multi_thread_eigen=false intra_op_parallelism_threads=1')
os.environ.setdefault('OMP_NUM_THREADS', '1')
os.environ.setdefault('TF_CPP_MIN_LOG_LEVEL', '3')

VERIF = os.path.dirname(os.path.dirname(os.path.abspath(__file__)))
REPO = os.environ.get('FURAX_REPO', '/repo')
# FURAX_SRC lets the self-tests point the checks at a scratch copy of the repository
SRC = os.environ.get('FURAX_SRC', os.path.join(REPO, 'src'))
if SRC not in sys.path:
    sys.path.insert(0, SRC)

import warnings  # noqa: E402

warnings.filterwarnings('ignore', message='Error reading persistent compilation cache')
warnings.filterwarnings('ignore', message='Error writing persistent compilation cache')
warnings.filterwarnings('ignore', message='Explicitly requested dtype')

import jax  # noqa: E402

jax.config.update('jax_enable_x64', True)
try:
    cache = os.path.join(VERIF, '.cache', 'xla')
    os.makedirs(cache, exist_ok=True)
    jax.config.update('jax_compilation_cache_dir', cache)
    jax.config.update('jax_persistent_cache_min_compile_time_secs', 0.0)
    jax.config.update('jax_persistent_cache_min_entry_size_bytes', -1)
except Exception:  # noqa: BLE001
    pass

import furax  # noqa: E402,F401

_furax_file = os.path.realpath(furax.__file__)
assert _furax_file.startswith(os.path.realpath(SRC)), (
    f'furax imported from {_furax_file}, expected under {SRC}')
