#!/usr/bin/env python3
"""Re-runs the targeted quick check of every kept seeded change against the final checks.
usage: reeval_seeds.py <k> <n>   (handles the seeds whose index % n == k; prints one line per seed)
Each patch is applied to a scratch copy of /repo/src under /tmp (removed afterwards); /repo is not touched."""
import glob
import json
import os
import shutil
import subprocess
import sys
import tempfile
import time

VERIF = os.path.dirname(os.path.dirname(os.path.abspath(__file__)))
k, n = int(sys.argv[1]), int(sys.argv[2])
seeds = sorted(glob.glob(os.path.join(VERIF, 'seeded', '*', 'meta.json')))
for i, mf in enumerate(seeds):
    if i % n != k:
        continue
    meta = json.load(open(mf))
    name, prop = meta['name'], meta['property']
    d = tempfile.mkdtemp(prefix='fxs_')
    try:
        shutil.copytree('/repo/src', os.path.join(d, 'src'))
        r = subprocess.run(['git', 'apply', '--include=src/*', os.path.join(os.path.dirname(mf), 'patch.diff')], cwd=d, capture_output=True, text=True)
        if r.returncode != 0:
            print(f'{name} {prop} PATCH-FAILED {r.stderr[:100]}', flush=True)
            continue
        t = time.time()
        env = dict(os.environ, FURAX_SRC=os.path.join(d, 'src'), VERIF_EVIDENCE_DIR=os.path.join(VERIF, '.work', 'evidence_selftest'))
        p = subprocess.run([os.path.join(VERIF, 'check'), prop, '--tier', 'quick'], capture_output=True, text=True, env=env, cwd=VERIF)
        first = [l for l in p.stdout.splitlines() if l.startswith(('#', 'HARNESS'))][:1]
        print(f'{name} {prop} exit={p.returncode} {time.time() - t:.0f}s {first[0][:140] if first else ""}', flush=True)
    finally:
        shutil.rmtree(d, ignore_errors=True)
