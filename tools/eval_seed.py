#!/usr/bin/env python3
"""Confirms a seeded change and runs checks against it.

usage: eval_seed.py <name> <property> <seed_dir> [extra check ids...]
 - copies patch.diff / demo.py / notes.txt to /verif/seeded/<name>/
 - in a scratch git worktree of /repo (under /tmp, removed afterwards): demo must pass without the patch and fail with it,
   the pinned test suite must not fail any test that passes without the patch
 - runs `./check <id> --tier quick` with FURAX_SRC pointing at the patched worktree for the property and the extra ids
 - writes meta.json
"""
import json
import os
import re
import shutil
import subprocess
import sys
import tempfile
import time

VERIF = os.path.dirname(os.path.dirname(os.path.abspath(__file__)))
name, prop, seed_dir = sys.argv[1:4]
extra = sys.argv[4:]
out = os.path.join(VERIF, 'seeded', name)
os.makedirs(out, exist_ok=True)
for f in ('patch.diff', 'demo.py', 'notes.txt'):
    if os.path.exists(os.path.join(seed_dir, f)):
        shutil.copy(os.path.join(seed_dir, f), os.path.join(out, f))
# demonstrations written by the sub-agents may pin their own worktree path: make it follow PYTHONPATH
_demo = os.path.join(out, 'demo.py')
if os.path.exists(_demo):
    _src = open(_demo).read()
    _src2 = re.sub(r"(['\"])" + re.escape(seed_dir.rstrip('/')) + r"/src/?\1", "__import__('os').environ.get('PYTHONPATH', '').split(':')[0]", _src)
    _src2 = _src2.replace(seed_dir.rstrip('/') + '/', "' + __import__('os').getcwd() + '/") if False else _src2
    if _src2 != _src:
        open(_demo, 'w').write(_src2)
scratch = tempfile.mkdtemp(prefix='fxseed_')
os.rmdir(scratch)
sh = lambda cmd, **kw: subprocess.run(cmd, shell=True, capture_output=True, text=True, **kw)  # noqa: E731
meta = dict(name=name, property=prop, ran=[])
try:
    r = sh(f'git -C /repo worktree add --detach {scratch} HEAD')
    assert r.returncode == 0, r.stderr
    env = dict(os.environ, PYTHONPATH=f'{scratch}/src')
    demo = os.path.join(out, 'demo.py')
    d0 = subprocess.run(['/venv/bin/python', demo], capture_output=True, text=True, env=env, cwd=scratch)
    r = sh(f'git -C {scratch} apply {out}/patch.diff')
    assert r.returncode == 0, 'patch does not apply: ' + r.stderr
    d1 = subprocess.run(['/venv/bin/python', demo], capture_output=True, text=True, env=env, cwd=scratch)
    meta['demo_without_patch_exit'] = d0.returncode
    meta['demo_with_patch_exit'] = d1.returncode
    meta['demo_with_patch_tail'] = (d1.stdout + d1.stderr)[-400:]
    meta['ran'].append('demo.py without / with the patch (PYTHONPATH=<scratch>/src)')
    t = time.time()
    tr = subprocess.run('/venv/bin/python -m pytest -q -p no:cacheprovider tests 2>&1', shell=True, capture_output=True, text=True, env=env, cwd=scratch)
    clean = re.sub(r'\x1b\[[0-9;]*m', '', tr.stdout)
    failed = sorted({re.sub(r' - .*', '', l) for l in clean.splitlines() if l.startswith(('FAILED', 'ERROR'))})
    bfile = os.path.join(os.path.dirname(seed_dir.rstrip('/')), 'baseline_failures.txt')
    base = sorted({l.strip() for l in open(bfile) if l.startswith(('FAILED', 'ERROR'))}) if os.path.exists(bfile) else None
    assert base is not None, 'baseline failure list not found next to the seed directory'
    meta['suite_summary'] = clean.strip().splitlines()[-1] if clean.strip() else ''
    meta['suite_new_failures'] = [f for f in failed if base is not None and f not in base]
    meta['suite_seconds'] = round(time.time() - t)
    meta['ran'].append('pinned test suite in the patched worktree, failures compared with the unpatched baseline')
    checks = {}
    for cid in [prop] + [c for c in extra if c != prop]:
        t = time.time()
        cenv = dict(os.environ, FURAX_SRC=f'{scratch}/src', VERIF_EVIDENCE_DIR=os.path.join(VERIF, '.work', 'evidence_selftest'))
        p = subprocess.run([os.path.join(VERIF, 'check'), cid, '--tier', 'quick'], capture_output=True, text=True, env=cenv, cwd=VERIF)
        lines = [l for l in p.stdout.splitlines() if l.startswith(('VIOLATION', '#', 'HARNESS', 'KNOWN'))][:3]
        checks[cid] = dict(exit=p.returncode, seconds=round(time.time() - t), first_lines=[l[:300] for l in lines])
        print(cid, checks[cid]['exit'], checks[cid]['seconds'], 's', lines[:1], flush=True)
    meta['checks_quick_with_patch'] = checks
    meta['ran'].append('./check <id> --tier quick with FURAX_SRC=<patched worktree>/src (equivalent to applying the patch to /repo; /repo itself untouched)')
    meta['detected_by'] = [c for c, v in checks.items() if v['exit'] == 1]
finally:
    sh(f'git -C /repo worktree remove --force {scratch}')
    shutil.rmtree(scratch, ignore_errors=True)
notes = os.path.join(out, 'notes.txt')
meta['needs'] = open(notes).read()[:1500] if os.path.exists(notes) else ''
json.dump(meta, open(os.path.join(out, 'meta.json'), 'w'), indent=1)
print(json.dumps({k: v for k, v in meta.items() if k not in ('needs', 'checks_quick_with_patch')}, indent=1))
