#!/usr/bin/env python3
"""Prints a markdown table of what the evidence files in /verif/evidence say (tier, cases, queries, time)."""
import glob
import json
import os

HERE = os.path.dirname(os.path.dirname(os.path.abspath(__file__)))
print('| id | tier | cases decided | non-trivial | solver queries | inconclusive | known findings | solver s | wall s |')
print('|---|---|---|---|---|---|---|---|---|')
for f in sorted(glob.glob(os.path.join(HERE, 'evidence', 'C*.json'))):
    d = json.load(open(f))
    c = d['coverage']
    print(f"| {d['property_id']} | {d['tier']} | {c.get('evaluations')} | {c.get('distinct_nontrivial')} | {c.get('obligations')} | {c.get('inconclusive')} | "
          f"{len(c.get('known_findings_matched', []))} | {c.get('solver', {}).get('total_s')} | {d.get('wall_s')} |")
