#!/bin/bash
# Runs every registered check once (tier from $1, default quick) and prints one line per check.
cd "$(dirname "$0")/.."
TIER=${1:-quick}
mkdir -p .work
shift
IDS=${@:-01 02 03 04 05 06 07 08 09 10 11 12 13 14 15 16 17 18 19 20}
for i in $IDS; do
  s=$(date +%s)
  ./check C$i --tier $TIER > .work/all_C$i.log 2>&1
  rc=$?
  echo "C$i exit=$rc $(( $(date +%s) - s ))s $(grep -E "^C$i \[" .work/all_C$i.log | tail -1 | cut -c1-170)"
done
