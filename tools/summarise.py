#!/usr/bin/env python3
"""Writes selftest/RESULTS.md (from a run_mutants log) and seeded/INDEX.md (from seeded/*/meta.json)."""
import ast
import glob
import json
import os
import sys

VERIF = os.path.dirname(os.path.dirname(os.path.abspath(__file__)))
sys.path.insert(0, os.path.join(VERIF, 'selftest'))
from mutants import M  # noqa: E402

notes = {m['id']: m.get('note', '') for m in M}
logs = sys.argv[1:] or sorted(glob.glob(os.path.join(VERIF, '.work', 'mut_*.log')))
rows = {}
for log in logs:
    for line in open(log):
        if line.startswith("('"):
            try:
                t = ast.literal_eval(line.strip())
            except Exception:
                continue
            rows[(t[0], t[1])] = t[2]
out = ['# Hand-written mutants vs. quick checks', '',
       'Each mutant is applied to a scratch copy of /repo/src (never to /repo); `exit=1` = VIOLATION reported and replayed, `exit=0` = not flagged.',
       'Mutants whose note says "semantics preserving" MUST come back with exit=0.', '',
       '| mutant | check | outcome | note |', '|---|---|---|---|']
for (mid, prop), res in sorted(rows.items()):
    out.append(f'| {mid} | {prop} | {res.split(" # ")[0]} | {notes.get(mid, "")[:110]} |')
open(os.path.join(VERIF, 'selftest', 'RESULTS.md'), 'w').write('\n'.join(out) + '\n')
idx = ['# Seeded changes (written by independent sub-agents from the property text only)', '',
       '| directory | property | needs | demo (without/with patch) | new test failures | quick checks that report it |', '|---|---|---|---|---|---|']
for mf in sorted(glob.glob(os.path.join(VERIF, 'seeded', '*', 'meta.json'))):
    m = json.load(open(mf))
    needs = ' '.join(m.get('needs', '').split())[:160]
    det = ', '.join(m.get('detected_by', [])) or '**none**'
    idx.append(f"| {m['name']} | {m['property']} | {needs} | {m.get('demo_without_patch_exit')}/{m.get('demo_with_patch_exit')} | {len(m.get('suite_new_failures', []))} | {det} |")
open(os.path.join(VERIF, 'seeded', 'INDEX.md'), 'w').write('\n'.join(idx) + '\n')
print(len(rows), 'mutant rows;', len(idx) - 4, 'seeds')
