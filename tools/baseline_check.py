#!/usr/bin/env python3
"""Runs the repository's pinned test suite (guard off: there are no hooks) and compares with BASELINE.json."""
import json
import os
import subprocess
import sys
import tempfile
import xml.etree.ElementTree as ET

base = json.load(open('/root/.vp/BASELINE.json'))
out = tempfile.mktemp(suffix='.xml', prefix='furax_baseline_')
cmd = base['cmd'].replace('<file>', out)
p = subprocess.run(cmd, shell=True, capture_output=True, text=True)
passed = set()
for tc in ET.parse(out).getroot().iter('testcase'):
    if not any(ch.tag in ('failure', 'error', 'skipped') for ch in tc):
        passed.add(f"{tc.get('classname')}::{tc.get('name')}")
os.remove(out)
stable = set(base['stable_pass'])
missing = sorted(stable - passed)
print(f'passed={len(passed)} stable={len(stable)} stable_now_failing={len(missing)} newly_passing={len(passed - stable)}')
for m in missing[:30]:
    print('  MISSING', m)
sys.exit(1 if missing else 0)
