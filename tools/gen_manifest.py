#!/usr/bin/env python3
"""Regenerates MANIFEST.json from the check modules present (run: python3 tools/gen_manifest.py)."""
import ast
import json
import os
import re

HERE = os.path.dirname(os.path.dirname(os.path.abspath(__file__)))
props = [json.loads(l) for l in open(os.path.join(HERE, 'properties.jsonl'))]
NA = {}
na_path = os.path.join(HERE, 'tools', 'not_applicable.json')
if os.path.exists(na_path):
    NA = json.load(open(na_path))
CATEGORY = {'translation_validation': 'translation_validation', 'other': 'other', 'model_checking': 'model_checking',
            'exploration': 'exploration'}


def consts(path):
    tree = ast.parse(open(path).read())
    out = {}
    for node in tree.body:
        if isinstance(node, ast.Assign) and len(node.targets) == 1 and isinstance(node.targets[0], ast.Name):
            try:
                out[node.targets[0].id] = ast.literal_eval(node.value)
            except Exception:
                pass
    return out


checks, na = [], []
for p in props:
    pid = p['id']
    path = os.path.join(HERE, 'fxv', 'checks', pid.lower() + '.py')
    if os.path.exists(path) and pid not in NA:
        c = consts(path)
        checks.append({
            'property_id': pid,
            'quick_cmd': f'./check {pid} --tier quick',
            'thorough_cmd': f'./check {pid} --tier thorough',
            'evidence_file': f'/verif/evidence/{pid}.json',
            'replay_cmd_template': f'./check {pid} --replay {{path}}',
            'engine': c.get('ENGINE', 'fxsmt'),
            'level_claimed': {'category': CATEGORY.get(c.get('LEVEL', 'other'), 'other'),
                              'text': c.get('LEVEL_TEXT', c.get('EXPLANATION', '')),
                              'design_ref': f'DESIGN.md section 3, {pid}'},
            'level_note': c.get('LEVEL_NOTE', '; '.join(c.get('ASSUMPTIONS', [])) + ' | stubs: ' + '; '.join(c.get('STUBS', []) or ['none'])),
            'technique': c.get('TECHNIQUE', ''),
        })
    else:
        na.append({'property_id': pid, 'reason': NA.get(pid, 'check not implemented yet at this commit (work in progress; see DESIGN.md)')})

manifest = {
    'version': 1,
    'setup_cmd': './setup.sh',
    'hooks': {
        'guard': 'FURAX_VERIF',
        'enable': 'no source hooks are needed: every check traces the unmodified library (stubs are installed in the harness process only)',
        'baseline_off_cmd': 'cd /repo && /venv/bin/python -m pytest -ra -q -p no:cacheprovider --timeout=900 --continue-on-collection-errors',
        'source_commits': [],
        'add_only': True,
    },
    'engines': [
        {'name': 'fxsmt', 'path': 'fxv/', 'serves_properties': [c['property_id'] for c in checks if c['engine'] == 'fxsmt'],
         'kind_free_text': 'symbolic execution of the jaxpr (compiler IR) of the real furax code over exact polynomial/cyclotomic values; verdicts by z3 5.1 (QF_NRA/NIRA), cvc5 1.4 cross-check'},
        {'name': 'crosshair', 'path': 'fxv/ch/', 'serves_properties': [c['property_id'] for c in checks if c['engine'] == 'crosshair'],
         'kind_free_text': 'CrossHair (z3-backed symbolic execution of Python) on the real pure-Python control logic'},
    ],
    'checks': checks,
    'not_applicable': na,
    'notes': 'All checks are bounded: see coverage.bounds in each evidence file and DESIGN.md. Exit 2 = harness error / inconclusive, never reported as success.',
}
json.dump(manifest, open(os.path.join(HERE, 'MANIFEST.json'), 'w'), indent=1)
print('checks:', [c['property_id'] for c in checks], 'n/a:', len(na))
